"""Model families: Vec/SmallVec/slice mutation + search + sort, collect into maps/sets, more iterator adaptors/consumers.
Written for API *families* (not only the calls present in today's tree) so that a modified tree rarely hits an unmodelled callee."""
import re, itertools
import z3
from .engine import *
from .mir import split_top
from .models import HashMapM
from .models2 import BTreeMapM

def register4(E):
    R = lambda rx: (lambda f: (E.models.insert(0, (re.compile(rx), f)), f)[1])
    eq_val = E.eq_val; clone_val = E.clone_val; bl = E.bl
    VEC = r'^(smallvec::)?(SmallVec|Vec|std::vec::Vec|alloc::vec::Vec)::<.*>::'
    SLICE = r'^(core|std|alloc)::slice::<impl \[.*\]>::'

    def vec_of(x):
        v = deref(x)
        while isinstance(v, Agg) and len(v.f) == 1 and v.ty not in ('arr', 'tup'): v = deref(v.f[0])
        if not isinstance(v, Vec): raise EngineError(f'not a Vec: {v!r}')
        return v
    def truth(e, c): return e.branch(c)
    def it_of(x):
        if isinstance(x, It): return x
        x0 = deref(x)
        if isinstance(x0, It): return x0
        if isinstance(x0, HashMapM):
            p = E.pick_order(len(x0.items))
            owned = not isinstance(x, Ref)
            from .models3 import HMKeyRef, HMValRef
            return It('list', l=[Agg([x0.items[i][0], x0.items[i][1]] if owned else [HMKeyRef(x0, i), HMValRef(x0, i)], 'tup') for i in p], pos=0)
        from .models2 import HashTableM
        if isinstance(x0, HashTableM):
            p = E.pick_order(len(x0.items))
            return It('list', l=[(Ref(x0.items[i][1], 0) if isinstance(x, Ref) else x0.items[i][1][0]) for i in p], pos=0)
        if isinstance(x0, BTreeMapM):
            return It('list', l=[Agg([Ref([k], 0), Ref(cell, 0)] if isinstance(x, Ref) else [k, cell[0]], 'tup') for k, cell in x0.items], pos=0)
        if isinstance(x0, Vec) and x0.ty == 'HashSet':
            p = E.pick_order(len(x0.l))
            return It('list', l=[(x0.l[i] if not isinstance(x, Ref) else Ref(x0.l, i)) for i in p], pos=0)
        if isinstance(x0, Agg) and x0.ty and 'RangeInclusive' in x0.ty: return It('range', pos=x0.f[0], end=x0.f[1] + 1)
        if isinstance(x0, Agg) and x0.ty and 'RangeFrom' in x0.ty: return It('range', pos=x0.f[0], end=float('inf'))
        if isinstance(x0, Agg) and x0.ty and 'Range' in x0.ty: return It('range', pos=x0.f[0], end=x0.f[1])
        if isinstance(x0, Enum) and x0.ty == 'Option': return It('list', l=([Ref(x0.f, 0)] if x0.f else []) if isinstance(x, Ref) else list(x0.f), pos=0)     # &Option<T> iterates over &T
        if isinstance(x0, Agg) and x0.ty and x0.ty not in ('arr', 'tup') and E._find_impl('next', 'Iterator', x0.ty, 1) is not None: return It('crate', obj=[x0])
        if isinstance(x0, Agg) and x0.ty and x0.ty not in ('arr', 'tup'):
            from .mir import type_key, strip_lifetimes
            cands = [f for f in E.ix.by_simple.get('into_iter', []) if f.args and type_key(f.args[0]) == x0.ty and (strip_lifetimes(f.args[0]).startswith('&') == isinstance(x, Ref))]
            if len(cands) >= 1:
                cands.sort(key=lambda f: not strip_lifetimes(f.args[0]).startswith('&mut '))
                return it_of(E.call_mir(cands[0], [x]))
        l, lo, hi = bl(x0)
        if isinstance(x, Ref) or isinstance(x0, (SliceRef, Str)): return It('slice', l=l, pos=lo, end=hi)
        return It('list', l=list(l[lo:hi]), pos=0)
    E.it_of = it_of
    def nxt(it): return E.it_next(it)
    def drain(it):
        out = []
        while True:
            n = nxt(it)
            if n.v == 'None': return out
            out.append(n.f[0])
    E.drain_iter = drain

    # ---------------------------------------------------------------- comparison of arbitrary values
    def cmp3(e, a, b, signed=False):
        """'Less' | 'Equal' | 'Greater' (forks when symbolic)"""
        a, b = deref(a), deref(b)
        if isinstance(a, bool): a = int(a)
        if isinstance(b, bool): b = int(b)
        if isinstance(a, int) and isinstance(b, int): return 'Less' if a < b else ('Greater' if a > b else 'Equal')
        if z3.is_expr(a) or z3.is_expr(b):
            lt = (a < b) if (signed or z3.is_int(a) or z3.is_int(b)) else z3.ULT(a, b)
            if e.branch(lt): return 'Less'
            return 'Equal' if e.branch(a == b) else 'Greater'
        ty = getattr(a, 'ty', None)
        if isinstance(a, Agg) and ty in ('Reverse', 'std::cmp::Reverse', 'cmp::Reverse', 'core::cmp::Reverse') and len(a.f) == 1: return cmp3(e, b.f[0], a.f[0], signed)
        if isinstance(a, (Agg, Enum)) and ty and ty not in ('tup', 'arr', 'Option', 'Result', 'unit'):
            f = e._find_impl('cmp', 'Ord', ty, 2) or e._find_impl('partial_cmp', 'PartialOrd', ty, 2)
            if f is not None:
                r = e.call_mir(f, [Ref([a], 0), Ref([b], 0)])
                return (r.f[0] if r.ty == 'Option' else r).v
            if isinstance(a, Agg) and len(a.f) == 1: return cmp3(e, a.f[0], b.f[0], signed)           # newtype without Ord in the dump: structural
        if isinstance(a, Enum) and a.ty == 'Option':
            if a.v != b.v: return 'Less' if a.v == 'None' else 'Greater'
            return cmp3(e, a.f[0], b.f[0], signed) if a.f else 'Equal'
        if isinstance(a, Enum):
            ia, ib = e.discr(a), e.discr(b)
            if ia != ib: return 'Less' if ia < ib else 'Greater'
            xs, ys = a.f, b.f
        elif isinstance(a, Agg): xs, ys = a.f, b.f
        else:
            la = bl(a); lb = bl(b); xs, ys = la[0][la[1]:la[2]], lb[0][lb[1]:lb[2]]
        for x, y in zip(xs, ys):
            o = cmp3(e, x, y, signed)
            if o != 'Equal': return o
        return 'Less' if len(xs) < len(ys) else ('Greater' if len(xs) > len(ys) else 'Equal')
    E.cmp3 = lambda a, b, signed=False: cmp3(E, a, b, signed)
    def ordv(s): return Enum(s, [], 'Ordering')
    def sort_list(e, items, less_eq):
        """stable insertion sort; less_eq(x, y) -> bool (may fork)"""
        out = []
        for x in items:
            i = len(out)
            while i > 0 and not less_eq(out[i - 1], x): i -= 1
            out.insert(i, x)
        return out

    # ---------------------------------------------------------------- Vec / SmallVec
    @R(VEC + r'(retain|retain_mut)::<')
    def _(e, c, a):
        v = vec_of(a[0]); keep = []
        for i in range(len(v.l)):
            if truth(e, e.closure_call(a[1], [Ref(v.l, i)])): keep.append(v.l[i])
        v.l[:] = keep; return UNIT
    @R(VEC + r'insert$')
    def _(e, c, a):
        v = vec_of(a[0])
        if not isinstance(a[1], int): raise EngineError('symbolic insert index')
        if a[1] > len(v.l): raise Panic('insertion index out of bounds')
        v.l.insert(a[1], a[2]); return UNIT
    @R(VEC + r'remove$')
    def _(e, c, a):
        v = vec_of(a[0])
        if not isinstance(a[1], int): raise EngineError('symbolic remove index')
        if a[1] >= len(v.l): raise Panic('removal index out of bounds')
        return v.l.pop(a[1])
    @R(VEC + r'truncate$')
    def _(e, c, a): v = vec_of(a[0]); del v.l[a[1]:]; return UNIT
    @R(VEC + r'clear$')
    def _(e, c, a): vec_of(a[0]).l.clear(); return UNIT
    @R(VEC + r'(reserve|reserve_exact|shrink_to_fit|shrink_to)$')
    def _(e, c, a): return UNIT
    @R(VEC + r'capacity$')
    def _(e, c, a): return max(len(vec_of(a[0]).l), 4)
    @R(VEC + r'append$')
    def _(e, c, a): o = vec_of(a[1]); vec_of(a[0]).l.extend(o.l); o.l.clear(); return UNIT
    @R(VEC + r'split_off$')
    def _(e, c, a):
        v = vec_of(a[0])
        if a[1] > len(v.l): raise Panic('split_off out of bounds')
        t = v.l[a[1]:]; del v.l[a[1]:]; return Vec(t, v.ty)
    @R(VEC + r'(as_mut_slice|as_slice|as_mut)$')
    def _(e, c, a): return SliceRef(vec_of(a[0]).l)
    @R(VEC + r'iter_mut$|' + SLICE + r'iter_mut$')
    def _(e, c, a): l, lo, hi = bl(a[0]); return It('slice', l=l, pos=lo, end=hi)
    @R(VEC + r'(resize)$')
    def _(e, c, a):
        v = vec_of(a[0]); n = a[1]
        if n < len(v.l): del v.l[n:]
        else: v.l.extend(clone_val(a[2]) for _ in range(n - len(v.l)))
        return UNIT
    @R(VEC + r'dedup$')
    def _(e, c, a):
        v = vec_of(a[0]); out = []
        for x in v.l:
            if out and truth(e, eq_val(out[-1], x)): continue
            out.append(x)
        v.l[:] = out; return UNIT
    @R(VEC + r'drain::<')
    def _(e, c, a):
        v = vec_of(a[0]); r = a[1]; n = len(v.l)
        lo, hi = 0, n
        if isinstance(r, Agg) and r.ty:
            if 'RangeFull' in r.ty: pass
            elif 'RangeFrom' in r.ty: lo = r.f[0]
            elif 'RangeTo' in r.ty: hi = r.f[0]
            else: lo, hi = r.f[0], r.f[1]
        if not (isinstance(lo, int) and isinstance(hi, int)): raise EngineError('symbolic drain range')
        if lo > hi or hi > n: raise Panic('drain range out of bounds')
        out = v.l[lo:hi]; del v.l[lo:hi]
        return It('list', l=out, pos=0)
    @R(VEC + r'from_iter::<|as FromIterator<.*>>::from_iter::<')
    def _(e, c, a): return collect_into(e, c.split('from_iter')[0], drain(it_of(a[0])))
    @R(SLICE + r'to_vec$|' + SLICE + r'to_owned$|^<\[.*\] as ToOwned>::to_owned$')
    def _(e, c, a): l, lo, hi = bl(a[0]); return Vec([clone_val(x) for x in l[lo:hi]], 'Vec')
    @R(SLICE + r'contains$')
    def _(e, c, a):
        l, lo, hi = bl(a[0])
        for x in l[lo:hi]:
            if truth(e, eq_val(x, a[1])): return True
        return False
    @R(SLICE + r'(first|last)(_mut)?$')
    def _(e, c, a):
        l, lo, hi = bl(a[0])
        if hi == lo: return NONE()
        return SOME(Ref(l, lo if 'first' in c else hi - 1))
    @R(SLICE + r'(split_first|split_last)$')
    def _(e, c, a):
        l, lo, hi = bl(a[0])
        if hi == lo: return NONE()
        if 'split_first' in c: return SOME(Agg([Ref(l, lo), SliceRef(l, lo + 1, hi)], 'tup'))
        return SOME(Agg([Ref(l, hi - 1), SliceRef(l, lo, hi - 1)], 'tup'))
    @R(SLICE + r'split_at(_mut)?$')
    def _(e, c, a):
        l, lo, hi = bl(a[0])
        if a[1] > hi - lo: raise Panic('split_at out of bounds')
        return Agg([SliceRef(l, lo, lo + a[1]), SliceRef(l, lo + a[1], hi)], 'tup')
    @R(SLICE + r'(chunk_by|chunk_by_mut)::<')
    def _(e, c, a):
        l, lo, hi = bl(a[0]); out = []; start = lo
        for i in range(lo + 1, hi):
            if not truth(e, e.closure_call(a[1], [Ref(l, i - 1), Ref(l, i)])): out.append(SliceRef(l, start, i)); start = i
        if hi > lo: out.append(SliceRef(l, start, hi))
        return It('list', l=out, pos=0)
    @R(SLICE + r'(split|rsplit|split_mut)::<')
    def _(e, c, a):
        l, lo, hi = bl(a[0]); out = []; start = lo
        for i in range(lo, hi):
            if truth(e, e.closure_call(a[1], [Ref(l, i)])): out.append(SliceRef(l, start, i)); start = i + 1
        out.append(SliceRef(l, start, hi))
        if '::rsplit::' in c: out.reverse()
        return It('list', l=out, pos=0)
    @R(SLICE + r'(chunks|chunks_exact)$')
    def _(e, c, a):
        l, lo, hi = bl(a[0]); n = a[1]; out = []
        if n == 0: raise Panic('chunk size must be non-zero')
        i = lo
        while i < hi:
            if i + n > hi and 'exact' in c: break
            out.append(SliceRef(l, i, min(hi, i + n))); i += n
        return It('list', l=out, pos=0)
    @R(SLICE + r'get_mut::<|' + SLICE + r'get_mut$')
    def _(e, c, a):
        l, lo, hi = bl(a[0]); i = a[1]
        if not isinstance(i, int): raise EngineError('symbolic get_mut index')
        return SOME(Ref(l, lo + i)) if i < hi - lo else NONE()
    @R(SLICE + r'fill$')
    def _(e, c, a):
        l, lo, hi = bl(a[0])
        for i in range(lo, hi): l[i] = clone_val(a[1])
        return UNIT
    @R(SLICE + r'copy_from_slice$|' + SLICE + r'clone_from_slice$')
    def _(e, c, a):
        l, lo, hi = bl(a[0]); m, mlo, mhi = bl(a[1])
        if hi - lo != mhi - mlo: raise Panic('source slice length does not match destination')
        l[lo:hi] = [clone_val(x) for x in m[mlo:mhi]]; return UNIT
    @R(SLICE + r'(concat|join)::<|' + SLICE + r'concat$')
    def _(e, c, a):
        l, lo, hi = bl(a[0]); out = []
        sep = None
        if '::join' in c: s_ = bl(a[1]); sep = s_[0][s_[1]:s_[2]]
        for i, x in enumerate(l[lo:hi]):
            if i and sep is not None: out.extend(sep)
            xl = bl(x); out.extend(xl[0][xl[1]:xl[2]])
        first = deref(l[lo]) if hi > lo else None
        return Vec(out, 'String' if isinstance(first, Str) or (isinstance(first, Vec) and first.ty == 'String') else 'Vec')
    # ---- sorting / searching
    def key_le(e, kf):
        return lambda x, y: cmp3(e, kf(x), kf(y)) != 'Greater'
    @R(SLICE + r'(sort|sort_unstable)$')
    def _(e, c, a):
        l, lo, hi = bl(a[0]); l[lo:hi] = sort_list(e, l[lo:hi], lambda x, y: cmp3(e, x, y) != 'Greater'); return UNIT
    @R(SLICE + r'(sort_by_key|sort_unstable_by_key|sort_by_cached_key)::<')
    def _(e, c, a):
        l, lo, hi = bl(a[0]); items = l[lo:hi]
        keys = {id(x): e.closure_call(a[1], [Ref([x], 0)]) for x in items}
        l[lo:hi] = sort_list(e, items, lambda x, y: cmp3(e, keys[id(x)], keys[id(y)]) != 'Greater'); return UNIT
    @R(SLICE + r'(sort_by|sort_unstable_by)::<')
    def _(e, c, a):
        l, lo, hi = bl(a[0])
        l[lo:hi] = sort_list(e, l[lo:hi], lambda x, y: e.closure_call(a[1], [Ref([x], 0), Ref([y], 0)]).v != 'Greater'); return UNIT
    @R(SLICE + r'is_sorted$')
    def _(e, c, a):
        l, lo, hi = bl(a[0]); return all(cmp3(e, x, y) != 'Greater' for x, y in zip(l[lo:hi], l[lo + 1:hi]))
    @R(SLICE + r'partition_point::<')
    def _(e, c, a):
        # specified only for partitioned slices; the model follows the std binary search so that unpartitioned inputs behave as in std
        l, lo, hi = bl(a[0]); size = hi - lo
        if size == 0: return 0
        base = 0
        while size > 1:
            half = size // 2; mid = base + half
            if truth(e, e.closure_call(a[1], [Ref(l, lo + mid)])): base = mid
            size -= half
        return base + (1 if truth(e, e.closure_call(a[1], [Ref(l, lo + base)])) else 0)
    def bsearch(e, l, lo, hi, cmpf):
        size = hi - lo
        if size == 0: return ERR(0)
        base = 0
        while size > 1:
            half = size // 2; mid = base + half
            if cmpf(Ref(l, lo + mid)) != 'Greater': base = mid
            size -= half
        o = cmpf(Ref(l, lo + base))
        if o == 'Equal': return OK(base)
        return ERR(base + (1 if o == 'Less' else 0))
    @R(SLICE + r'binary_search$')
    def _(e, c, a): l, lo, hi = bl(a[0]); return bsearch(e, l, lo, hi, lambda r: cmp3(e, r, a[1]))
    @R(SLICE + r'binary_search_by::<')
    def _(e, c, a): l, lo, hi = bl(a[0]); return bsearch(e, l, lo, hi, lambda r: e.closure_call(a[1], [r]).v)
    @R(SLICE + r'binary_search_by_key::<')
    def _(e, c, a): l, lo, hi = bl(a[0]); return bsearch(e, l, lo, hi, lambda r: cmp3(e, e.closure_call(a[2], [r]), a[1]))

    # ---------------------------------------------------------------- collect
    def inner_type(t):
        i = t.index('<'); d = 0
        for j in range(i, len(t)):
            if t[j] == '<': d += 1
            elif t[j] == '>' and t[j - 1] != '-':
                d -= 1
                if d == 0: return t[i + 1:j]
        return t[i + 1:]
    def collect_into(e, target, items):
        t = target.strip()
        if t == '()' or (re.fullmatch(r'[A-Z]\w{0,2}', t) and all(x is UNIT or (isinstance(x, Agg) and x.ty == 'unit') for x in items)): return UNIT
        if re.match(r'\s*<?(std::option::)?Option<', t):
            inner = []
            for x in items:
                if x.v == 'None': return NONE()
                inner.append(x.f[0])
            return SOME(collect_into(e, inner_type(t), inner))
        if re.match(r'\s*<?(std::result::)?Result<', t):
            inner = []
            for x in items:
                if x.v == 'Err': return x
                inner.append(x.f[0])
            return OK(collect_into(e, split_top(inner_type(t))[0], inner))
        if re.search(r'HashMap<|BTreeMap<', t) and not re.match(r'\s*<?(Vec|SmallVec|std::vec::Vec|smallvec::SmallVec)<', t.lstrip('<')):
            if 'BTreeMap<' in t:
                m = BTreeMapM()
                for kv in items:
                    k, v = kv.f; found = False
                    for i, (kk, cell) in enumerate(m.items):
                        if cmp3(e, kk, k) == 'Equal': cell[0] = v; found = True; break
                    if not found:
                        pos = 0
                        while pos < len(m.items) and cmp3(e, m.items[pos][0], k) == 'Less': pos += 1
                        m.items.insert(pos, (k, [v]))
                return m
            hm = HashMapM()
            for kv in items:
                k, v = kv.f; found = False
                for i, (kk, vv) in enumerate(hm.items):
                    if truth(e, eq_val(kk, k)): hm.items[i] = (kk, v); found = True; break
                if not found: hm.items.append((k, v))
            return hm
        if re.match(r'\s*<?(std::collections::)?(HashSet|BTreeSet)<', t):
            out = []
            for x in items:
                if not any(truth(e, eq_val(x, y)) for y in out): out.append(x)
            if 'BTreeSet' in t: out = sort_list(e, out, lambda x, y: cmp3(e, x, y) != 'Greater')
            return Vec(out, 'HashSet' if 'HashSet' in t else 'BTreeSet')
        if re.match(r'\s*<?(std::string::)?String\b', t):
            out = []
            for x in items:
                x = deref(x)
                out.extend(E.sbytes(x) if not isinstance(x, (int,)) and not z3.is_expr(x) and not hasattr(x, 'id') else [x])
            return Vec(out, 'String')
        if re.match(r'\s*<?(bstr::)?BString\b', t): return Vec(items, 'BString')
        if re.match(r'\s*<?(smallvec::)?SmallVec<', t): return Vec(items, 'SmallVec')
        if re.match(r'\s*<?(std::vec::|alloc::vec::)?Vec<', t) or t.strip() in ('', '_'): return Vec(items, 'Vec')
        if re.match(r'\s*<?\(', t):       # unzip-like tuple collect
            raise EngineError('collect into tuple')
        # crate type implementing FromIterator
        from .mir import type_key
        ty = type_key(t.lstrip('<'))
        f = E._find_impl('from_iter', 'FromIterator', ty, 1)
        if f is not None: return E.call_mir(f, [It('list', l=list(items), pos=0)])
        raise EngineError('collect target ' + t)
    E.collect_into = lambda target, items: collect_into(E, target, items)
    @R(r'as Iterator>::collect::<(.*)>$')
    def _(e, c, a):
        t = re.search(r'as Iterator>::collect::<(.*)>$', c).group(1)
        return collect_into(e, t, drain(it_of(a[0])))
    @R(r'as Itertools>::collect_vec$')
    def _(e, c, a): return Vec(drain(it_of(a[0])), 'Vec')

    # ---------------------------------------------------------------- iterator consumers / adaptors
    @R(r'as Iterator>::(position|rposition)::<')
    def _(e, c, a):
        xs = drain(it_of(a[0])); idx = list(range(len(xs)))
        if 'rposition' in c: idx.reverse()
        for i in idx:
            if truth(e, e.closure_call(a[1], [xs[i]])): return SOME(i)
        return NONE()
    # ---------------------------------------------------------------- u8 / char classification (symbolic aware)
    def in_set(b, ranges):
        if isinstance(b, int): return any(lo <= b <= hi for lo, hi in ranges)
        return z3.Or(*[(b == lo) if lo == hi else z3.And(z3.UGE(b, lo), z3.ULE(b, hi)) for lo, hi in ranges])
    U8CLASS = {'is_ascii_whitespace': [(9, 10), (12, 13), (32, 32)], 'is_ascii_digit': [(48, 57)], 'is_ascii_alphabetic': [(65, 90), (97, 122)],
               'is_ascii_alphanumeric': [(48, 57), (65, 90), (97, 122)], 'is_ascii_uppercase': [(65, 90)], 'is_ascii_lowercase': [(97, 122)],
               'is_ascii_hexdigit': [(48, 57), (65, 70), (97, 102)], 'is_ascii_punctuation': [(33, 47), (58, 64), (91, 96), (123, 126)],
               'is_ascii_graphic': [(33, 126)], 'is_ascii_control': [(0, 31), (127, 127)], 'is_ascii': [(0, 127)]}
    @R(r'^core::num::<impl u8>::(is_ascii\w*)$|^core::char::methods::<impl char>::(is_ascii\w*)$')
    def _(e, c, a):
        name = c.rsplit('::', 1)[1]; b = deref(a[0])
        if name not in U8CLASS: raise EngineError('u8 class ' + name)
        return in_set(b, U8CLASS[name])
    @R(r'^core::num::<impl (usize|u8|u16|u32|u64)>::saturating_add$')
    def _(e, c, a):
        x, y = a; bits = {'usize': 64, 'u8': 8, 'u16': 16, 'u32': 32, 'u64': 64}[re.search(r'impl (\w+)>', c).group(1)]
        if isinstance(x, int) and isinstance(y, int): return min(x + y, (1 << bits) - 1)
        X = x if z3.is_bv(x) else z3.BitVecVal(x, bits); Y = y if z3.is_bv(y) else z3.BitVecVal(y, bits)
        return z3.If(z3.BVAddNoOverflow(X, Y, False), X + Y, z3.BitVecVal((1 << bits) - 1, bits))
    OPS = {'BitXor': lambda x, y: x ^ y, 'BitAnd': lambda x, y: x & y, 'BitOr': lambda x, y: x | y, 'Add': lambda x, y: x + y, 'Sub': lambda x, y: x - y, 'Mul': lambda x, y: x * y}
    @R(r'^<&?&?(u8|u16|u32|u64|usize|i32|i64) as (BitXor|BitAnd|BitOr|Add|Sub|Mul)(<.*>)?>::\w+$')
    def _(e, c, a):
        op = re.search(r' as (\w+)', c).group(1); ty = re.match(r'^<&*(\w+)', c).group(1)
        x, y = deref(a[0]), deref(a[1]); r = OPS[op](x, y)
        if isinstance(r, int):
            bits = {'u8': 8, 'u16': 16, 'u32': 32, 'i32': 32}.get(ty, 64)
            if op in ('Add', 'Sub', 'Mul') and not (0 <= r < (1 << bits)) and ty.startswith('u'): raise Panic('arithmetic overflow')
        return r
    @R(r'Option::<.*>::(iter|iter_mut|into_iter)$')
    def _(e, c, a):
        o = deref(a[0])
        if o.v == 'None': return It('list', l=[], pos=0)
        return It('list', l=[o.f[0] if c.endswith('into_iter') and not isinstance(a[0], Ref) else Ref(o.f, 0)], pos=0)
    @R(r'Option::<.*>::filter::<')
    def _(e, c, a):
        if a[0].v == 'None': return a[0]
        return a[0] if truth(e, e.closure_call(a[1], [Ref(a[0].f, 0)])) else NONE()
    @R(r'Option::<(usize|u8|u32|u64|i32|i64)>::unwrap_or_default$')
    def _(e, c, a): return a[0].f[0] if a[0].v == 'Some' else 0
    @R(r'Option::<.*>::(is_none_or|is_some_and)::<')
    def _(e, c, a):
        if a[0].v == 'None': return 'is_none_or' in c
        return e.closure_call(a[1], [a[0].f[0]])
    @R(r'Option::<.*>::(map_or|map_or_else)::<')
    def _(e, c, a):
        if a[0].v == 'Some': return e.closure_call(a[2], [a[0].f[0]])
        return a[1] if '::map_or::' in c else e.closure_call(a[1], [])
    @R(r'Option::<.*>::ok_or_else::<')
    def _(e, c, a): return OK(a[0].f[0]) if a[0].v == 'Some' else ERR(e.closure_call(a[1], []))
    @R(r'Option::<.*>::(as_mut|as_deref)$')
    def _(e, c, a):
        o = deref(a[0]); return SOME(Ref(o.f, 0)) if o.v == 'Some' else NONE()
    @R(r'Result::<.*>::(or_else|unwrap_or_else|unwrap_or_default|err|expect_err|unwrap_err|inspect_err|or)(::<.*)?$')
    def _(e, c, a):
        op = re.search(r'>::(\w+)(::<.*)?$', c).group(1); r = a[0]
        if op == 'or_else': return r if r.v == 'Ok' else e.closure_call(a[1], [r.f[0]])
        if op == 'or': return r if r.v == 'Ok' else a[1]
        if op == 'unwrap_or_else': return r.f[0] if r.v == 'Ok' else e.closure_call(a[1], [r.f[0]])
        if op == 'err': return SOME(r.f[0]) if r.v == 'Err' else NONE()
        if op in ('expect_err', 'unwrap_err'):
            if r.v == 'Ok': raise Panic('unwrap_err on Ok')
            return r.f[0]
        if op == 'inspect_err':
            if r.v == 'Err': e.closure_call(a[1], [Ref(r.f, 0)])
            return r
        raise EngineError('Result::' + op)
    @R(r'Result::<.*>::(map_err|map|and_then|ok|is_ok|is_err|unwrap_or)(::<.*)?$')
    def _(e, c, a):
        op = re.search(r'>::(\w+)(::<.*)?$', c).group(1); r = a[0]
        if op == 'map_err': return r if r.v == 'Ok' else ERR(e.closure_call(a[1], [r.f[0]]))
        if op == 'map': return OK(e.closure_call(a[1], [r.f[0]])) if r.v == 'Ok' else r
        if op == 'and_then': return e.closure_call(a[1], [r.f[0]]) if r.v == 'Ok' else r
        if op == 'ok': return SOME(r.f[0]) if r.v == 'Ok' else NONE()
        if op == 'is_ok': return deref(r).v == 'Ok'
        if op == 'is_err': return deref(r).v == 'Err'
        return r.f[0] if r.v == 'Ok' else a[1]
    # ---- bstr
    def bmatch(e, l, i, p):
        cs = []
        for x, y in zip(l[i:i + len(p)], p):
            if isinstance(x, int) and isinstance(y, int):
                if x != y: return False
            else: cs.append(x == y)
        return truth(e, True if not cs else (cs[0] if len(cs) == 1 else z3.And(*cs)))
    def pat_of(x):
        pl, plo, phi = bl(x); return pl[plo:phi]
    @R(r'as ByteSlice>::(split_str|rsplit_str)::<')
    def _(e, c, a):
        l, lo, hi = bl(a[0]); p = pat_of(a[1]); out = []; start = lo; i = lo
        if not p: raise EngineError('split_str with empty needle')
        while i + len(p) <= hi:
            if bmatch(e, l, i, p): out.append(SliceRef(l, start, i)); i += len(p); start = i
            else: i += 1
        out.append(SliceRef(l, start, hi))
        if 'rsplit_str' in c: out.reverse()
        return It('list', l=out, pos=0)
    @R(r'as ByteSlice>::(find|rfind)::<')
    def _(e, c, a):
        l, lo, hi = bl(a[0]); p = pat_of(a[1]); rng_ = range(lo, hi - len(p) + 1)
        for i in (reversed(rng_) if '::rfind' in c else rng_):
            if bmatch(e, l, i, p): return SOME(i - lo)
        return NONE()
    @R(r'as ByteSlice>::(contains_str|starts_with_str|ends_with_str)::<')
    def _(e, c, a):
        l, lo, hi = bl(a[0]); p = pat_of(a[1])
        if len(p) > hi - lo: return False
        if 'starts_with' in c: return bmatch(e, l, lo, p)
        if 'ends_with' in c: return bmatch(e, l, hi - len(p), p)
        return any(bmatch(e, l, i, p) for i in range(lo, hi - len(p) + 1))
    @R(r'as ByteSlice>::lines$')
    def _(e, c, a):
        l, lo, hi = bl(a[0]); out = []; start = lo
        for i in range(lo, hi):
            if truth(e, l[i] == 10):
                end = i
                if end > start and truth(e, l[end - 1] == 13): end -= 1
                out.append(SliceRef(l, start, end)); start = i + 1
        if start < hi: out.append(SliceRef(l, start, hi))
        return It('list', l=out, pos=0)
    @R(r'as ByteSlice>::find_byte$')
    def _(e, c, a):
        l, lo, hi = bl(a[0])
        for i in range(lo, hi):
            if truth(e, l[i] == a[1]): return SOME(i - lo)
        return NONE()
    @R(r'as ByteSlice>::(last_byte)$')
    def _(e, c, a):
        l, lo, hi = bl(a[0]); return SOME(l[hi - 1]) if hi > lo else NONE()
    @R(r'as ByteVec>::push_str::<|as ByteVec>::push_byte$|as ByteVec>::push_char$')
    def _(e, c, a):
        v = vec_of(a[0])
        if 'push_str' in c: s_ = bl(a[1]); v.l.extend(s_[0][s_[1]:s_[2]])
        else: v.l.append(a[1])
        return UNIT
    @R(r'as Itertools>::all_equal_value$')
    def _(e, c, a):
        xs = drain(it_of(a[0]))
        if not xs: return ERR(NONE())
        for x in xs[1:]:
            if not truth(e, eq_val(xs[0], x)): return ERR(SOME(Agg([xs[0], x], 'tup')))
        return OK(xs[0])
    @R(VEC + r'pop_if::<')
    def _(e, c, a):
        v = vec_of(a[0])
        if not v.l: return NONE()
        if truth(e, e.closure_call(a[1], [Ref(v.l, len(v.l) - 1)])): return SOME(v.l.pop())
        return NONE()
    # ---- io::Write on Vec<u8> (in-memory output)
    @R(r' as (std::io::)?Write>::write_all$')
    def _(e, c, a):
        v = vec_of(a[0]); s_ = bl(a[1]); v.l.extend(s_[0][s_[1]:s_[2]]); return OK(UNIT)
    @R(r' as (std::io::)?Write>::write_fmt$|^std::io::Write::write_fmt$')
    def _(e, c, a):
        v = vec_of(a[0]); v.l.extend(E.format_args(a[1])); return OK(UNIT)
    @R(r'^(std::mem|core::mem)::swap::<')
    def _(e, c, a):
        x, y = a[0].get(), a[1].get(); a[0].set(y); a[1].set(x); return UNIT
    @R(r'^(std|core)::slice::from_ref::<')
    def _(e, c, a):
        r = a[0]
        if not isinstance(r, Ref): raise EngineError('slice::from_ref of a non-reference')
        if isinstance(r.c, list): return SliceRef(r.c, r.k, r.k + 1)
        return SliceRef([r.get()], 0, 1)
    @R(r'^(std|core)::mem::(drop|forget)::<')
    def _(e, c, a): return UNIT
    @R(r'as Itertools>::(tuples|tuple_windows)::<')
    def _(e, c, a):
        xs = drain(it_of(a[0]))
        mm = re.search(r'::<\((.*)\)>$', c)
        n = len(split_top(mm.group(1))) if mm else 2
        if 'tuple_windows' in c: return It('list', l=[Agg([clone_val(x) for x in xs[i:i + n]], 'tup') for i in range(len(xs) - n + 1)], pos=0)
        return It('list', l=[Agg(xs[i:i + n], 'tup') for i in range(0, len(xs) - n + 1, n)], pos=0)          # a trailing incomplete tuple is dropped (itertools semantics)
    @R(r'as Itertools>::positions::<')
    def _(e, c, a):
        xs = drain(it_of(a[0]))
        return It('list', l=[i for i, x in enumerate(xs) if truth(e, e.closure_call(a[1], [x]))], pos=0)
    @R(r'as Iterator>::last$')
    def _(e, c, a): xs = drain(it_of(a[0])); return SOME(xs[-1]) if xs else NONE()
    @R(r'as Iterator>::nth$')
    def _(e, c, a):
        it = it_of(a[0])
        for _ in range(a[1]):
            if nxt(it).v == 'None': return NONE()
        return nxt(it)
    @R(r'as Iterator>::(sum|product)::<')
    def _(e, c, a):
        xs = [deref(x) for x in drain(it_of(a[0]))]; acc = 0 if '::sum' in c else 1
        for x in xs: acc = acc + x if '::sum' in c else acc * x
        return acc
    @R(r'as Iterator>::(max|min)$')
    def _(e, c, a):
        xs = drain(it_of(a[0]))
        if not xs: return NONE()
        best = xs[0]
        for x in xs[1:]:
            o = cmp3(e, x, best)
            if (c.endswith('max') and o != 'Less') or (c.endswith('min') and o == 'Less'): best = x
        return SOME(best)
    @R(r'as Iterator>::(max_by_key|min_by_key)::<')
    def _(e, c, a):
        xs = drain(it_of(a[0]))
        if not xs: return NONE()
        best = xs[0]; bk = e.closure_call(a[1], [Ref([best], 0)])
        for x in xs[1:]:
            k = e.closure_call(a[1], [Ref([x], 0)]); o = cmp3(e, k, bk)
            if ('max_by_key' in c and o != 'Less') or ('min_by_key' in c and o == 'Less'): best, bk = x, k
        return SOME(best)
    @R(r'as Iterator>::(max_by|min_by)::<')
    def _(e, c, a):
        xs = drain(it_of(a[0]))
        if not xs: return NONE()
        best = xs[0]
        for x in xs[1:]:
            o = e.closure_call(a[1], [Ref([x], 0), Ref([best], 0)]).v
            if ('max_by' in c and o != 'Less') or ('min_by' in c and o == 'Less'): best = x
        return SOME(best)
    @R(r'as Iterator>::for_each::<')
    def _(e, c, a):
        for x in drain(it_of(a[0])): e.closure_call(a[1], [x])
        return UNIT
    @R(r'as Iterator>::try_for_each::<')
    def _(e, c, a):
        for x in drain(it_of(a[0])):
            r = e.closure_call(a[1], [x])
            if r.v in ('Err', 'None', 'Break'): return r
        t = c.split('try_for_each::<')[1]
        return OK(UNIT) if 'Result<' in t else (SOME(UNIT) if 'Option<' in t else Enum('Continue', [UNIT], 'ControlFlow'))
    @R(r'as Iterator>::partition::<')
    def _(e, c, a):
        yes, no = [], []
        for x in drain(it_of(a[0])): (yes if truth(e, e.closure_call(a[1], [Ref([x], 0)])) else no).append(x)
        return Agg([Vec(yes), Vec(no)], 'tup')
    @R(r'as Iterator>::(eq|ne)::<')
    def _(e, c, a):
        xs, ys = drain(it_of(a[0])), drain(it_of(a[1]))
        r = len(xs) == len(ys) and all(truth(e, eq_val(x, y)) for x, y in zip(xs, ys))
        return r if '::eq::' in c else not r
    @R(r'as Iterator>::cmp::<|as Iterator>::partial_cmp::<')
    def _(e, c, a):
        o = ordv(cmp3(e, Vec(drain(it_of(a[0]))), Vec(drain(it_of(a[1])))))
        return SOME(o) if 'partial_cmp' in c else o
    @R(r'as Iterator>::(take|skip_while|map_while|inspect|flatten|fuse|by_ref|dedup)(::<.*)?$|as Itertools>::(dedup|unique|sorted|sorted_by_key|sorted_unstable|sorted_unstable_by_key|tuple_windows|rev)(::<.*)?$')
    def _(e, c, a):
        name = re.search(r'>::(\w+)', c).group(1)
        if name in ('fuse', 'by_ref'): return a[0] if isinstance(a[0], It) else it_of(a[0])
        xs = drain(it_of(a[0]))
        if name == 'take': return It('list', l=xs[:a[1]], pos=0)          # NB eager: consumes the source (sound for pure sources)
        if name == 'skip_while':
            i = 0
            while i < len(xs) and truth(e, e.closure_call(a[1], [Ref([xs[i]], 0)])): i += 1
            return It('list', l=xs[i:], pos=0)
        if name == 'map_while':
            out = []
            for x in xs:
                r = e.closure_call(a[1], [x])
                if r.v == 'None': break
                out.append(r.f[0])
            return It('list', l=out, pos=0)
        if name == 'inspect':
            for x in xs: e.closure_call(a[1], [Ref([x], 0)])
            return It('list', l=xs, pos=0)
        if name == 'flatten':
            out = []
            for x in xs: out.extend(drain(it_of(x)))
            return It('list', l=out, pos=0)
        if name == 'dedup':
            out = []
            for x in xs:
                if out and truth(e, eq_val(out[-1], x)): continue
                out.append(x)
            return It('list', l=out, pos=0)
        if name == 'unique':
            out = []
            for x in xs:
                if not any(truth(e, eq_val(x, y)) for y in out): out.append(x)
            return It('list', l=out, pos=0)
        if name in ('sorted', 'sorted_unstable'): return It('list', l=sort_list(e, xs, lambda x, y: cmp3(e, x, y) != 'Greater'), pos=0)
        if name in ('sorted_by_key', 'sorted_unstable_by_key'):
            keys = {id(x): e.closure_call(a[1], [Ref([x], 0)]) for x in xs}
            return It('list', l=sort_list(e, xs, lambda x, y: cmp3(e, keys[id(x)], keys[id(y)]) != 'Greater'), pos=0)
        if name == 'tuple_windows':
            n = 2
            return It('list', l=[Agg([clone_val(x) for x in xs[i:i + n]], 'tup') for i in range(len(xs) - n + 1)], pos=0)
        if name == 'rev': return It('list', l=xs[::-1], pos=0)
        raise EngineError('adaptor ' + name)
    @R(r'as IntoIterator>::into_iter$')
    def _(e, c, a):
        x0 = deref(a[0])
        if isinstance(x0, Agg) and not isinstance(a[0], Ref) and x0.ty and x0.ty not in ('arr', 'tup') and 'Range' not in x0.ty and E._find_impl('next', 'Iterator', x0.ty, 1) is not None:
            return a[0]                      # a crate type that is itself an Iterator: into_iter is the identity
        return it_of(a[0])
    # ---------------------------------------------------------------- HashSet / BTreeSet (list without duplicates)
    SET = r'^(std::collections::)?(HashSet|BTreeSet)::<.*>::'
    def sl_(x): return deref(x).l
    def member(e, s, v): return any(truth(e, eq_val(x, v)) for x in s)
    @R(SET + r'(is_subset|is_superset|is_disjoint)$')
    def _(e, c, a):
        s1, s2 = sl_(a[0]), sl_(a[1])
        if 'is_superset' in c: s1, s2 = s2, s1
        if 'is_disjoint' in c: return not any(member(e, s2, x) for x in s1)
        return all(member(e, s2, x) for x in s1)
    @R(SET + r'(union|difference|symmetric_difference)$')
    def _(e, c, a):
        v1, v2 = deref(a[0]), deref(a[1]); s1, s2 = v1.l, v2.l
        if '::union' in c: out = [Ref(s1, i) for i in range(len(s1))] + [Ref(s2, j) for j in range(len(s2)) if not member(e, s1, s2[j])]
        elif '::difference' in c: out = [Ref(s1, i) for i in range(len(s1)) if not member(e, s2, s1[i])]
        else: out = [Ref(s1, i) for i in range(len(s1)) if not member(e, s2, s1[i])] + [Ref(s2, j) for j in range(len(s2)) if not member(e, s1, s2[j])]
        if 'HashSet' in c: out = [out[i] for i in e.pick_order(len(out))]
        return It('list', l=out, pos=0)
    @R(SET + r'(remove|take)::<')
    def _(e, c, a):
        s = sl_(a[0])
        for i, x in enumerate(s):
            if truth(e, eq_val(x, a[1])):
                s.pop(i); return True if '::remove' in c else SOME(x)
        return False if '::remove' in c else NONE()
    @R(SET + r'get::<')
    def _(e, c, a):
        s = sl_(a[0])
        for i, x in enumerate(s):
            if truth(e, eq_val(x, a[1])): return SOME(Ref(s, i))
        return NONE()
    @R(SET + r'retain::<')
    def _(e, c, a):
        v = deref(a[0]); v.l[:] = [x for i, x in enumerate(list(v.l)) if truth(e, e.closure_call(a[1], [Ref([x], 0)]))]; return UNIT
    @R(SET + r'(clear)$')
    def _(e, c, a): deref(a[0]).l.clear(); return UNIT
    @R(SET + r'(with_capacity|with_hasher|with_capacity_and_hasher)$')
    def _(e, c, a): return Vec([], 'HashSet' if 'HashSet' in c else 'BTreeSet')
    @R(r'^<(std::collections::)?(HashSet|BTreeSet)<.*> as Extend<.*>>::extend::<|' + SET + r'extend::<')
    def _(e, c, a):
        s = sl_(a[0])
        for x in drain(it_of(a[1])):
            if not member(e, s, x): s.append(x)
        return UNIT
    @R(SET + r'(drain|into_iter)$')
    def _(e, c, a):
        v = deref(a[0]); out = [v.l[i] for i in e.pick_order(len(v.l))] if 'HashSet' in c else list(v.l)
        if '::drain' in c: v.l.clear()
        return It('list', l=out, pos=0)
    @R(r'^<(std::collections::)?(HashSet|BTreeSet)<.*> as PartialEq>::(eq|ne)$')
    def _(e, c, a):
        s1, s2 = sl_(a[0]), sl_(a[1])
        r = len(s1) == len(s2) and all(member(e, s2, x) for x in s1)
        return r if c.endswith('::eq') else not r
    @R(r'^(std::collections::)?HashMap::<.*>::(remove|remove_entry)::<')
    def _(e, c, a):
        hm = deref(a[0])
        for i, (k, v) in enumerate(hm.items):
            if truth(e, eq_val(k, a[1])):
                hm.items.pop(i); return SOME(v) if 'remove_entry' not in c else SOME(Agg([k, v], 'tup'))
        return NONE()
    @R(r'^(std::collections::)?HashMap::<.*>::(clear)$')
    def _(e, c, a): deref(a[0]).items.clear(); return UNIT
    @R(r'^(std::collections::)?HashMap::<.*>::(with_capacity|with_hasher|with_capacity_and_hasher)$')
    def _(e, c, a): return HashMapM()
    @R(r'^(std::collections::)?HashMap::<.*>::(into_values|into_keys)$')
    def _(e, c, a):
        hm = deref(a[0]); p = e.pick_order(len(hm.items))
        return It('list', l=[hm.items[i][1 if 'values' in c else 0] for i in p], pos=0)
    @R(r'^(std::collections::)?HashMap::<.*>::(iter_mut|values_mut)$')
    def _(e, c, a):
        from .models3 import HMKeyRef, HMValRef
        hm = deref(a[0]); p = e.pick_order(len(hm.items))
        if 'values_mut' in c: return It('list', l=[HMValRef(hm, i) for i in p], pos=0)
        return It('list', l=[Agg([HMKeyRef(hm, i), HMValRef(hm, i)], 'tup') for i in p], pos=0)
    @R(r'Entry::<.*>::or_insert_with::<|Entry::<.*>::or_default$|Entry::<.*>::or_insert$')
    def _(e, c, a):
        en = a[0]
        from .models3 import HMValRef
        def newval():
            if c.endswith('or_insert'): return a[1]
            if 'or_insert_with' in c: return e.closure_call(a[1], [])
            t = c.split('Entry::<', 1)[1]
            if re.search(r'(Vec|SmallVec)<[^,]*>>?::or_default$', c) or ', Vec<' in t or ', std::vec::Vec<' in t: return Vec([])
            if re.search(r', (usize|u32|u64|i32|i64|u8)>', t): return 0
            raise EngineError('or_default value type in ' + c)
        if en.ty == 'Entry':              # std HashMap
            if en.v == 'Vacant':
                hm, key = en.f; hm.items.append((key, newval())); return HMValRef(hm, len(hm.items) - 1)
            hm, i = en.f; return HMValRef(hm, i)
        if en.ty == 'HTEntry':            # hashbrown::HashTable
            if en.v == 'Vacant':
                ht, h = en.f; ht.items.append((h, [newval()])); return Ref(ht.items[-1][1], 0)
            ht, i = en.f; return Ref(ht.items[i][1], 0)
        if en.ty == 'BTEntry':            # BTreeMap with concrete keys
            if en.v == 'Vacant':
                bm, k = en.f; bm.items.append((k, [newval()])); bm.items.sort(key=lambda kv: kv[0]); i = [kk for kk, _ in bm.items].index(k)
            else: bm, i = en.f
            return Ref(bm.items[i][1], 0)
        raise EngineError('entry kind ' + str(en.ty))

def register_path(E):
    """std::path on unix, as byte strings: Path/OsStr = str bytes; PathBuf = Vec('PathBuf'); Component = Enum.
    Documented semantics of Path::components(): repeated separators and interior/trailing `.` are dropped, a leading `.` is kept
    for relative paths, `..` is ParentDir, a leading `/` is RootDir."""
    R = lambda rx: (lambda f: (E.models.insert(0, (re.compile(rx), f)), f)[1])
    bl = E.bl
    def pbytes(x):
        l, lo, hi = bl(x); return l[lo:hi]
    def pref(b): return Ref([Str(list(b))], 0)
    def truth(c): return E.branch(c)
    def components(b):
        out = []; n = len(b); i = 0
        has_root = n > 0 and truth(b[0] == 47)
        if has_root: out.append(Enum('RootDir', [], 'Component'))
        first = True
        while i < n:
            if truth(b[i] == 47): i += 1; continue
            j = i
            while j < n and not truth(b[j] == 47): j += 1
            comp = b[i:j]
            if len(comp) == 1 and truth(comp[0] == 46):
                if first and not has_root: out.append(Enum('CurDir', [], 'Component'))
            elif len(comp) == 2 and truth(comp[0] == 46) and truth(comp[1] == 46): out.append(Enum('ParentDir', [], 'Component'))
            else: out.append(Enum('Normal', [pref(comp)], 'Component'))
            first = False; i = j
        return out
    E.path_components = components
    @R(r'^(std::path::)?Path::new::<|as AsRef<(std::path::)?Path>>::as_ref$|as AsRef<(std::ffi::)?OsStr>>::as_ref$|^(std::path::)?Path::as_os_str$|^(std::path::)?PathBuf::as_path$|^<(std::path::)?PathBuf as Deref>::deref$|^(std::path::)?PathBuf::as_os_str$')
    def _(e, c, a):
        v = deref(a[0])
        return a[0] if isinstance(a[0], Ref) and isinstance(v, (Str, Vec)) else pref(pbytes(a[0]))
    @R(r'^(std::path::)?Path::components$')
    def _(e, c, a): return It('list', l=components(pbytes(a[0])), pos=0)
    @R(r'^(std::path::)?Component::<.*>::as_os_str$|^(std::path::)?Component::as_os_str$')
    def _(e, c, a):
        comp = deref(a[0])
        if comp.v == 'Normal': return comp.f[0]
        return pref({'RootDir': [47], 'CurDir': [46], 'ParentDir': [46, 46]}[comp.v])
    @R(r'^(std::ffi::)?OsStr::to_str$|^(std::path::)?Path::to_str$')
    def _(e, c, a):
        b = pbytes(a[0])
        for x in b:
            if not isinstance(x, int) and not E.branch(z3.ULT(x, 0x80)): raise EngineError('non-ASCII path bytes are outside the model')
        return SOME(pref(b))
    @R(r'^(std::ffi::)?OsStr::(len)$')
    def _(e, c, a): return len(pbytes(a[0]))
    @R(r'^(std::ffi::)?OsStr::(is_empty)$')
    def _(e, c, a): return len(pbytes(a[0])) == 0
    @R(r'^(std::ffi::)?OsStr::to_string_lossy$|^(std::path::)?Path::to_string_lossy$')
    def _(e, c, a): return Enum('Borrowed', [pref(pbytes(a[0]))], 'Cow')
    @R(r'^<&*(std::path::)?Path as PartialEq(<&*(std::path::)?Path>)?>::(eq|ne)$')
    def _(e, c, a):
        x, y = components(pbytes(a[0])), components(pbytes(a[1]))
        r = len(x) == len(y) and all(p.v == q.v and (p.v != 'Normal' or E.branch(E.eq_val(p.f[0], q.f[0]))) for p, q in zip(x, y))
        return r if not c.endswith('ne') else not r
    @R(r'^<(std::ffi::)?OsStr as PartialEq<(str|&str|String)>>::(eq|ne)$|^<(std::ffi::)?OsStr as PartialEq>::(eq|ne)$')
    def _(e, c, a):
        r = E.eq_val(pref(pbytes(a[0])), pref(pbytes(a[1])))
        if c.endswith('ne'): return (not r) if isinstance(r, bool) else z3.Not(r)
        return r
    @R(r'^(std::path::)?PathBuf::(new|with_capacity)$')
    def _(e, c, a): return Vec([], 'PathBuf')
    @R(r'^(std::path::)?PathBuf::push::<')
    def _(e, c, a):
        buf = deref(a[0]); p = pbytes(a[1])
        if p and truth(p[0] == 47): buf.l[:] = list(p); return UNIT              # absolute argument replaces the buffer
        if buf.l and not truth(buf.l[-1] == 47): buf.l.append(47)
        buf.l.extend(p); return UNIT
    @R(r'^<(std::path::)?PathBuf as From<&(std::path::)?Path>>::from$|^<&(std::path::)?Path as Into<(std::path::)?PathBuf>>::into$|^(std::path::)?Path::to_path_buf$|^(std::path::)?Path::to_owned$')
    def _(e, c, a): return Vec(list(pbytes(a[0])), 'PathBuf')
    @R(r'^(std::path::)?Path::is_absolute$|^(std::path::)?Path::has_root$')
    def _(e, c, a):
        b = pbytes(a[0]); return bool(b) and truth(b[0] == 47)
    @R(r'as Iterator>::fuse$')
    def _(e, c, a): return a[0] if isinstance(a[0], It) else E.it_of(a[0])

"""Common machinery for property harnesses: path exploration + per-path obligations + bookkeeping."""
import time, re, json, hashlib, itertools
import z3
from .engine import Engine, Panic, PathEnd, EngineError, Agg, Enum, Ref, SliceRef, Vec, Str, deref
from .mir import AnchorError

class Violation:
    def __init__(self, job, label, model, detail, key=None):
        self.job, self.label, self.model, self.detail, self.key = job, label, model, detail, key or label
    def to_json(self): return dict(job=self.job, label=self.label, model=self.model, detail=self.detail, key=self.key)

class JobResult:
    """accumulates what one job (one concrete shape of symbolic inputs) covered"""
    def __init__(self, name):
        self.name = name
        self.paths = 0; self.ok_paths = 0; self.panic_paths = 0; self.steps = 0; self.queries = 0; self.calls = 0
        self.obligations = 0; self.discharged = 0
        self.violations = []; self.inconclusive = []
        self.samples = []; self.witnesses = []
        self.touched = {}; self.cov = set(); self.solver_s = 0.0; self.wall_s = 0.0; self.smt2 = []
        self.partition_ok = None; self.notes = []; self.cuts = []
    def merge_engine(self, e):
        self.steps += e.stats['steps']; self.queries += e.stats['queries']; self.calls += e.stats['calls']
        for n, f in e.touched.items():
            if n not in self.touched: self.touched[n] = (f.file, f.line, e.ix.body_hash(f))
        self.cov |= e.cov
        self.notes.extend(sorted(getattr(e, 'notes', ())))
    def slim(self):
        return self

def model_to_json(m):
    out = {}
    for d in m.decls():
        if d.arity() != 0: continue
        v = m[d]
        try:
            if z3.is_bv_value(v) or z3.is_int_value(v): out[d.name()] = v.as_long()
            elif z3.is_true(v) or z3.is_false(v): out[d.name()] = z3.is_true(v)
            else: out[d.name()] = str(v)
        except Exception: out[d.name()] = str(v)
    return out

def mval(m, x, default=0):
    """value of term x in model m as python int/bool (model completion on)"""
    if isinstance(x, (int, bool)): return x
    v = m.eval(x, model_completion=True)
    if z3.is_bv_value(v) or z3.is_int_value(v): return v.as_long()
    if z3.is_true(v): return True
    if z3.is_false(v): return False
    # uninterpreted sort value: identify by its string
    return str(v)

def zbool(x):
    return z3.BoolVal(x) if isinstance(x, bool) else x

def zand(cs):
    cs = [c for c in cs if c is not True]
    if any(c is False for c in cs): return z3.BoolVal(False)
    if not cs: return z3.BoolVal(True)
    return z3.And(*[zbool(c) for c in cs]) if len(cs) > 1 else zbool(cs[0])

def zor(cs):
    cs = [c for c in cs if c is not False]
    if any(c is True for c in cs): return z3.BoolVal(True)
    if not cs: return z3.BoolVal(False)
    return z3.Or(*[zbool(c) for c in cs]) if len(cs) > 1 else zbool(cs[0])

def explore_job(ix, name, run, obligations, overrides=None, pre=None, panics_are_violations=True, witness=None,
                sample=None, max_paths=10**9, deadline=None, keep_smt2=False, partition=True, timeout_ms=60000, expected_paths=None,
                engine_hook=None, keep_results=False, split=None):
    """Run `run(e)` on every feasible path.  For each completed path call
         obligations(kind, out, pc, e) -> iterable of (label, formula)   # formula must be VALID under pc
       and decide each with z3 (pc ∧ ¬formula must be unsat).
       witness(model, kind, out) -> json-able native replay case for the path (optional)
    """
    res = JobResult(name); t0 = time.time()
    e = Engine(ix, overrides or [])
    if engine_hook: engine_hook(e)
    pre_list = []
    def run2(e_):
        if pre is not None:
            p = pre(e_) if callable(pre) else pre
            pre_list[:] = [p]; e_.assume(p); e_.pc.pop()          # keep the precondition out of pc bookkeeping (added back below)
        return run(e_)
    prefix = None; split_depth = None
    if split and split[0] == 'enumerate': split_depth = split[1]
    elif split and split[0] == 'prefix': prefix = split[1]
    try:
        results = e.explore(run2, max_paths=max_paths, deadline=deadline, prefix=prefix, split_depth=split_depth)
    except EngineError as ex:
        res.inconclusive.append(f'engine error: {ex} | stack: ' + ' > '.join(getattr(ex, 'stack', [])[-5:])); res.merge_engine(e); res.wall_s = time.time() - t0; return res
    except AnchorError as ex:
        res.inconclusive.append(f'anchor: {ex}'); res.merge_engine(e); res.wall_s = time.time() - t0; return res
    if e.truncated: res.inconclusive.append(f'exploration truncated ({e.truncated}) after {len(results)} paths')
    res.merge_engine(e)
    res.paths = len(results)
    prec = pre_list[0] if pre_list else z3.BoolVal(True)
    ts = time.time()
    for kind, out, pc in results:
        if deadline is not None and time.time() > deadline + 180 and not res.violations:
            # the budget also bounds the deciding phase: an over-long job counts as not completed (its rung is reported as not covered)
            if not e.truncated: res.inconclusive.append(f'exploration truncated (deadline reached while discharging obligations, {res.obligations} done)')
            e.truncated = e.truncated or 'deadline'; break
        if kind == 'panic':
            res.panic_paths += 1
            if panics_are_violations:
                res.obligations += 1
                s = z3.Solver(); s.add(prec, *pc); r = s.check()
                m = model_to_json(s.model()) if r == z3.sat else {}
                res.violations.append(Violation(name, 'no-panic', m, f'panic: {out}', key='panic:' + re.sub(r'\d+', 'N', str(out))[:80]))
                if witness and r == z3.sat:
                    try: res.violations[-1].case = witness(s.model(), kind, out)
                    except Exception as ex: res.notes.append(f'witness failed: {ex}')
                continue
        else: res.ok_paths += 1
        try: obs = list(obligations(kind, out, pc, e))
        except EngineError as ex:
            res.inconclusive.append(f'oracle error: {ex}'); continue
        base = z3.Solver(); base.set('timeout', timeout_ms); base.add(prec, *pc)
        for label, formula in obs:
            res.obligations += 1
            if formula is True: res.discharged += 1; continue
            if formula is False: formula = z3.BoolVal(False)
            base.push(); base.add(z3.Not(formula))
            if keep_smt2 and len(res.smt2) < 400: res.smt2.append(base.to_smt2())
            r = base.check()
            if r == z3.unsat: res.discharged += 1
            elif r == z3.sat:
                m = base.model()
                v = Violation(name, label, model_to_json(m), f'path={kind} out={short(out)}', key=label)
                if witness:
                    try: v.case = witness(m, kind, out)
                    except Exception as ex: res.notes.append(f'witness failed: {ex}')
                res.violations.append(v)
            else:
                # wall-clock timeouts are load dependent: retry once in a fresh solver with a much larger limit before giving up
                s2 = z3.Solver(); s2.set('timeout', timeout_ms * (10 if deadline is None or time.time() < deadline else 1)); s2.add(prec, *pc, z3.Not(formula)); r2 = s2.check()
                if r2 == z3.unsat: res.discharged += 1
                elif r2 == z3.sat:
                    m = s2.model(); v = Violation(name, label, model_to_json(m), f'path={kind} out={short(out)}', key=label)
                    if witness:
                        try: v.case = witness(m, kind, out)
                        except Exception as ex: res.notes.append(f'witness failed: {ex}')
                    res.violations.append(v)
                else: res.inconclusive.append(f'solver unknown on obligation {label}')
            base.pop()
        if witness is not None and len(res.witnesses) < 64:
            base.push()
            if base.check() == z3.sat:
                try: res.witnesses.append(witness(base.model(), kind, out))
                except Exception as ex: res.notes.append(f'witness failed: {ex}')
            base.pop()
        if sample is not None and len(res.samples) < 3:
            try: res.samples.append(sample(kind, out, pc))
            except Exception as ex: res.notes.append(f'sample failed: {ex}')
        elif sample is None and len(res.samples) < 3:
            res.samples.append(dict(job=name, path_condition=[str(c)[:200] for c in pc[:8]], outcome=kind, out=short(out)))
    # partition check: the explored path conditions cover the whole precondition
    if partition and not e.truncated and results is not None:
        s = z3.Solver(); s.set('timeout', timeout_ms); s.add(prec)
        allpcs = [zand(pc) for _, _, pc in e.all_pcs] + [zand(pc) for pc in e.cut_pcs]
        if prefix is not None and e.prefix_pc is not None: s.add(*e.prefix_pc)        # this sub-job is responsible for its prefix region only
        s.add(z3.Not(zor(allpcs)) if allpcs else z3.BoolVal(True))
        r = s.check(); res.obligations += 1
        if r == z3.unsat: res.discharged += 1; res.partition_ok = True
        elif r == z3.sat: res.partition_ok = False; res.inconclusive.append('path conditions do not cover the input space (engine bug)')
        else: res.inconclusive.append('partition check unknown')
    if expected_paths is not None and res.paths != expected_paths and not e.truncated:
        res.inconclusive.append(f'path count {res.paths} != expected {expected_paths}')
    res.solver_s = time.time() - ts; res.wall_s = time.time() - t0
    if keep_results: res.results = results
    res.cuts = list(e.cuts)
    return res

def short(x, n=300):
    s = repr(x)
    return s if len(s) <= n else s[:n] + '…'

# ---------------------------------------------------------------- symbolic value helpers
U = z3.DeclareSort('U')             # opaque value domain (only ==, clone, hash)
def usym(name): return z3.Const(name, U)
def bv(name, w=64): return z3.BitVec(name, w)
def byte(name): return z3.BitVec(name, 8)

def mk_merge(vals, ty='merge::Merge'): return Agg([Vec(list(vals), 'SmallVec')], ty)
def merge_vals(m): return deref(m).f[0].l
def rng(a, b): return Agg([a, b], 'std::ops::Range')

def den(vals, probe):
    """signed multiplicity of `probe` among alternating add/remove terms"""
    return z3.Sum([z3.If(v == probe, 1 if i % 2 == 0 else -1, 0) for i, v in enumerate(vals)]) if vals else z3.IntVal(0)

# ---------------------------------------------------------------- struct construction by field name (robust to field reordering)
class Opaque:
    """a field the harness does not model; any use by the code is an engine error (the claim would otherwise silently depend on it)"""
    def __init__(self, name): self.name = name
    def __repr__(self): return f'<opaque {self.name}>'

def struct_fields(ix, file, name):
    import re as _re
    txt = '\n'.join(ix.src(file))
    m = _re.search(r'\bstruct ' + name + r'\b[^{;(]*\{', txt)
    if not m: raise AnchorError(f'struct {name} not found in {file}')
    i = m.end(); depth = 1; j = i
    while depth and j < len(txt):
        depth += {'{': 1, '}': -1}.get(txt[j], 0); j += 1
    body = _re.sub(r'//[^\n]*', '', txt[i:j - 1]); body = _re.sub(r'#\[[^\]]*\]', '', body)
    from .mir import split_top
    out = []
    for part in split_top(body):
        mm = _re.match(r'\s*(?:pub(?:\([^)]*\))? )?(\w+)\s*:', part)
        if mm: out.append(mm.group(1))
    return out

def mk_struct(ix, file, name, ty=None, **fields):
    names = struct_fields(ix, file, name)
    for k in fields:
        if k not in names: raise AnchorError(f'struct {name} has no field {k}')
    return Agg([fields.get(n, Opaque(f'{name}.{n}')) for n in names], ty or name)

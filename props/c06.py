"""C06  An unedited conflicted file is snapshotted as the same conflict  (lib/src/conflicts.rs: update_from_content)

Real code from MIR: update_from_content (async), extract_as_single_hunk, get_file_contents, Merge::{simplify, try_map_async, map,
update_from_simplified}, files::merge_hunks, parse_conflict (+ everything C05 executes), materialize_merge_result_to_bytes to produce
the on-disk text.
Stub: `Store` is a content map: read_file(id) -> the symbolic content bound to that id; write_file(content) -> a fresh id bound to
that content; merge_options() -> line level, same-change accepted.
Symbolic: the content byte of every file id (plain = non-marker, non-whitespace), the edit byte.
"""
import itertools, re, z3
from mirsym.harness import *
from mirsym.engine import NONE, SOME, OK, StubFuture, It

ID = 'C06'
TECHNIQUE = 'symbolic execution of rustc MIR (path-forking) + z3 SMT queries per path; the store is a nondeterministic content-map stub; violations reported on the solver verdict (no native replay: needs a backend on disk)'
CRATES = ['jj-lib', 'jj-core']
NATIVE = None
NATIVE_CONFIRM = False        # needs a Store/Backend on disk; the solver verdict over the MIR decides
BOUNDS = {
    'quick': 'file-id conflicts [A,B,C], [A,B,B,B,C], [A,A,A,B,C], [A,-,C], [-,B,C] (- = absent side), one line per file with one symbolic plain byte; marker styles diff, snapshot, git; (1) unchanged materialization, (2) an edit of a shared first line (resolved region) for [A,B,B,B,C] (all three styles) and [A,B,C] (snapshot) with two-line files',
    'thorough': 'adds diff-experimental and the remaining id patterns of arity 5 with one redundant pair',
}
ASSUMPTIONS = [
    'Store = content map stub (read_file/write_file/merge_options); the executable-bit half of the property lives in local_working_copy.rs::write_path_to_store (file system) and is not covered',
    'content bytes are plain (not a marker character, not whitespace); conflict labels are absent',
]
BUDGET = {'quick': 900, 'thorough': 3000}
F = 'lib/src/conflicts.rs'

def jobs(tier):
    pats = [[0, 1, 2], [0, 1, 1, 1, 2], [0, 0, 0, 1, 2], [0, None, 2], [None, 1, 2]]
    styles = ['Diff', 'Snapshot', 'Git'] + (['DiffExperimental'] if tier == 'thorough' else [])
    out = []
    for p in pats:
        for st in styles:
            if st == 'Git' and len(set(x for x in p if x is not None)) != 3 and len(p) != 3: continue
            out.append(dict(name='same-' + ''.join('-' if x is None else 'ABC'[x] for x in p) + f'-{st}', what='same', pat=p, style=st, rung=0, weight=10))
    for p in ([0, 1, 2], [0, 1, 1, 1, 2]):
        for st in styles:
            if tier == 'quick' and len(p) == 3 and st != 'Snapshot': continue
            out.append(dict(name='edit-' + ''.join('ABC'[x] for x in p) + f'-{st}', what='edit', pat=p, style=st, rung=1, weight=30, split=('enumerate', 6)))
    return out

def run_job(ix, job, tier):
    pat, style = job['pat'], job['style']
    upd = ix.find('update_from_content', file=F); mat = ix.find('materialize_merge_result_to_bytes', file=F)
    choose = ix.find('choose_materialized_conflict_marker_len', file=F)
    simp = ix.find_method('lib/src/merge.rs', 'Merge', 'simplify')
    MARK = [ord(ch) for ch in '<>+-%\\|=']
    def plain(b): return z3.And(*[b != v for v in MARK + [9, 10, 11, 12, 13, 32]])
    atoms = sorted(set(x for x in pat if x is not None))
    shared = byte('shared'); edit = byte('edit')
    two_lines = job['what'] == 'edit'
    cbyte = {a: byte(f'c{a}') for a in atoms}
    content = {a: ([shared, 10] if two_lines else []) + [cbyte[a], 10] for a in atoms}
    pre = zand([plain(b) for b in list(cbyte.values()) + [shared, edit]] + ([edit != shared] + [cbyte[a] != cbyte[b] for a, b in itertools.combinations(atoms, 2)] if two_lines else []))        # edit jobs: the contents really conflict
    def fid(a): return Agg([Vec([a], 'Vec')], 'FileId')
    store_map = {}
    def read_file(e, c, a):
        i = deref(deref(a[2]).f[0]).l[0]
        return StubFuture(OK(Agg([Ref([e.ReaderM('cursor', data=list(store_map[i]), pos=0)], 0)], 'Pin')))
    def write_file(e, c, a):
        data = e.rd(a[2]).read_all() if not isinstance(deref(a[2]), SliceRef) else deref(a[2]).items()
        nid = 100 + len([k for k in store_map if k >= 100]); store_map[nid] = list(data)
        return StubFuture(OK(fid(nid)))
    mopts = mk_struct(ix, 'lib/src/tree_merge.rs', 'MergeOptions', hunk_level=Enum('Line', ty='FileMergeHunkLevel'), same_change=Enum('Accept', ty='SameChange'))
    over = [(re.compile(r'Store::read_file$'), read_file), (re.compile(r'Store::write_file$'), write_file), (re.compile(r'Store::merge_options$'), lambda e, c, a: Ref([mopts], 0))]
    def ids_merge(): return mk_merge([NONE() if x is None else SOME(fid(x)) for x in pat])
    def run(e):
        store_map.clear(); store_map.update({a: list(content[a]) for a in atoms})
        file_ids = ids_merge()
        sids = e.call_mir(simp, [Ref([file_ids], 0)])
        sterms = [(None if t.v == 'None' else deref(t.f[0].f[0]).l[0]) for t in merge_vals(sids)]
        old_contents = mk_merge([Vec(list(content[t]) if t is not None else [], 'BString') for t in sterms])
        labels = mk_struct(ix, 'lib/src/conflict_labels.rs', 'ConflictLabels', labels=mk_merge([Vec([], 'String')]))
        opts = mk_struct(ix, F, 'ConflictMaterializeOptions', marker_style=Enum(style, ty='ConflictMarkerStyle'), marker_len=NONE(), merge=mopts)
        text = list(e.bl(e.call_mir(mat, [Ref([old_contents], 0), Ref([labels], 0), Ref([opts], 0)], targs=['BString']))[0])
        mlen = e.call_mir(choose, [Ref([old_contents], 0)], targs=['BString'])
        if two_lines:
            if not (isinstance(text[1], int) and text[1] == 10): raise EngineError('expected the shared line first in the materialized text')
            text = [edit] + text[1:]
        coro = e.call_mir(upd, [Ref([file_ids], 0), Ref([Opaque('store')], 0), Ref([Str(list(b'f'))], 0), SliceRef(list(text)), mlen])
        r = e.poll(coro)
        if r.v != 'Ok': raise EngineError('update_from_content returned Err')
        out = [(None if t.v == 'None' else deref(t.f[0].f[0]).l[0]) for t in merge_vals(r.f[0])]
        return out, {k: list(v) for k, v in store_map.items()}, sterms
    def same_bytes(a, b):
        if len(a) != len(b): return z3.BoolVal(False)
        return zand([x == y for x, y in zip(a, b) if not (isinstance(x, int) and isinstance(y, int) and x == y)] + [False for x, y in zip(a, b) if isinstance(x, int) and isinstance(y, int) and x != y])
    def obligations(k, res, pc, e):
        out, smap, sterms = res
        yield 'the recorded conflict keeps the original (unsimplified) arity', len(out) == len(pat)
        if len(out) != len(pat): return
        if job['what'] == 'same':
            yield 'an unedited conflicted file is recorded as exactly the original conflict (same ids in the same positions)', out == pat
            return
        # edit of a resolved region: every present term gets the edit, cancelled pairs keep their original ids, absent stays absent
        surviving = set()          # positions of the original that the simplified conflict maps to: those whose id changed must carry the edited content
        for pos, (o, p) in enumerate(zip(out, pat)):
            if p is None:
                yield f'absent side {pos} stays absent', o is None
            elif o == p:
                surviving.add(pos)  # untouched: only allowed for cancelled (redundant) positions
            else:
                yield f'term {pos}: new content = old content with the edit applied to the shared line', (same_bytes(smap[o], [edit, 10, cbyte[p], 10]) if o in smap else False)
        untouched = [pos for pos, (o, p) in enumerate(zip(out, pat)) if p is not None and o == p]
        yield 'exactly the surviving positions are rewritten; the cancelled pair is untouched', len(untouched) == len(pat) - len(sterms)
        # the untouched positions must denote a cancelling pair (one add and one remove of the same id)
        yield 'untouched positions form add/remove pairs of the same id', (sum(1 for p_ in untouched if p_ % 2 == 0) == sum(1 for p_ in untouched if p_ % 2 == 1)) and all(any(pat[a] == pat[b] for b in untouched if b % 2 != a % 2) for a in untouched)
    def hook(e): e.max_orders = 6
    return explore_job(ix, job['name'], run, obligations, overrides=over, pre=pre, deadline=job.get('deadline'), split=job.get('split'), engine_hook=hook)

def compare_native(case, native): return True, ''

"""C18  The commit index answers exactly as the commit graph  (lib/src/default_index/composite.rs, bit_set.rs, entry.rs)

Claimed part: the graph queries of CompositeCommitIndex over an ARBITRARY stack of index segments whose entries satisfy the
representation invariant (parents have smaller positions; generation = 1 + max generation of the parents, 0 for a root).
Real code from MIR: CompositeCommitIndex::{entry_by_pos, ancestor_index_segments, ancestor_files_without_local, num_commits,
is_ancestor_pos, common_ancestors_pos, heads_pos, all_heads_pos}, shift_to_parents, dedup_pop, dedup_replace, remove_dup,
CommitIndexEntry::{new, generation_number, parent_positions}, PositionsBitSet::*, AncestorsBitSet::{with_capacity, add_head,
visit_until, contains}.
Symbolic: the whole parent relation (one boolean per pair of positions p < c), hence the generation numbers (terms over those
booleans).  The segment accessors fork on the booleans they are asked about; the oracle is the transitive closure written as a
formula over ALL the booleans, so every graph that agrees with the path on the inspected edges is decided by the solver at once.
"""
import itertools, re, z3
from mirsym.harness import *
from mirsym.engine import NONE, SOME, It, UNIT
from props.graphstub import SymGraph, GP, plist, subset

ID = 'C18'
CRATES = ['jj-lib']
NATIVE = None
NATIVE_CONFIRM = False
BOUNDS = {
    'quick': 'every commit DAG on <=4 positions (any parent sets incl. octopus merges, parents listed ascending or descending), '
             'stored in one segment or split over two stacked segments at every split point: is_ancestor_pos for every pair, heads_pos for every '
             'candidate subset, common_ancestors_pos for all pairs of lists of <=2 positions (n<=3; lists of <=1 position for n=4), all_heads_pos, AncestorsBitSet add_head/visit_until/contains '
             'for every head subset; is_ancestor_pos additionally on 5 positions and on the sparse position sets {62,63,64,65} and {1,62,..,65} '
             '(crossing the 64-bit bitset word boundary); AncestorsBitSet on {62,63,64,65}',
    'thorough': 'every query on <=6 positions (7 for is_ancestor_pos, 5 for common_ancestors_pos), is_ancestor_pos on {0,1,62,..,65}, AncestorsBitSet on all three sparse sets, three stacked segments',
}
ASSUMPTIONS = [
    'index segments are abstract: CommitIndexSegment::{num_parent_commits, num_local_commits, parent_file, generation_number, parent_positions} '
    'are harness stubs answering from the symbolic graph (the real implementations in mutable.rs/readonly.rs are table accessors and the on-disk '
    'encoding; they, segment squashing, merge_in and reload are NOT covered)',
    'representation invariant assumed of the segments: parent positions are smaller than the commit position, generation numbers are '
    '1 + max over the parents (0 for roots) - this is what MutableCommitIndexSegment::add_commit_data computes',
    'BinaryHeap is a native model (max-first observable behaviour); change-id lookups and commit-id <-> position maps are not covered',
]
BUDGET = {'quick': 900, 'thorough': 3000}
F = 'lib/src/default_index/composite.rs'
FB = 'lib/src/default_index/bit_set.rs'
SPARSE = [0, 1, 62, 63, 64, 65]

def jobs(tier):
    """quick: a fixed list that always completes (dense n<=4 for every query, n=5 and the sparse sets for is_ancestor_pos only)"""
    out = []
    q = tier == 'quick'
    nmax = 5 if q else 6
    for n in range(2, nmax + 1):
        heavy = n <= 4 or not q            # heads / bitset / allheads fork over candidate subsets as well: n=5,6 only in the thorough tier
        rung = 0 if n <= 4 else n
        sp = ('enumerate', 6) if n >= 4 else None
        for split in [()] + [(k,) for k in range(1, n)]:
            tag = f'n{n}' + ('' if not split else '-split' + '_'.join(map(str, split)))
            out.append(dict(name=f'anc-{tag}', what='anc', pos=list(range(n)), segs=list(split), order='asc', rung=rung, weight=3 ** n, split=('enumerate', 6) if n >= 5 else None))
            if heavy: out.append(dict(name=f'heads-{tag}', what='heads', pos=list(range(n)), segs=list(split), order='asc', rung=rung, weight=4 ** n, split=sp))
        out.append(dict(name=f'anc-n{n}-desc', what='anc', pos=list(range(n)), segs=[], order='desc', rung=rung, weight=3 ** n, split=('enumerate', 6) if n >= 5 else None))
        if heavy:
            out.append(dict(name=f'heads-n{n}-desc', what='heads', pos=list(range(n)), segs=[], order='desc', rung=rung, weight=4 ** n, split=sp))
            out.append(dict(name=f'allheads-n{n}', what='allheads', pos=list(range(n)), segs=[n // 2], order='asc', rung=rung, weight=4 ** n, split=sp))
            out.append(dict(name=f'bitset-n{n}', what='bitset', pos=list(range(n)), segs=[], order='asc', rung=rung, weight=4 ** n, split=sp))
        if n <= (4 if q else 5):
            kmax = 1 if (q and n >= 4) else 2
            out.append(dict(name=f'common-n{n}-k{kmax}', what='common', kmax=kmax, pos=list(range(n)), segs=[n // 2], order='asc', rung=rung, weight=6 ** n, split=('enumerate', 6) if n >= 4 else None))
    for k in ((4, 5) if q else (4, 5, 6)):
        sp = SPARSE[6 - k:]
        out.append(dict(name=f'anc-sparse{k}', what='anc', pos=sp, segs=[], order='asc', rung=0 if k <= 4 else k, weight=3 ** k, split=('enumerate', 6) if k >= 5 else None))
        if k <= 4 or not q:
            out.append(dict(name=f'bitset-sparse{k}', what='bitset', pos=sp, segs=[], order='desc', rung=0 if k <= 4 else k, weight=4 ** k, split=('enumerate', 6)))
    if not q:
        out.append(dict(name='anc-n7', what='anc', pos=list(range(7)), segs=[3], order='asc', rung=7, weight=3 ** 7, split=('enumerate', 6)))
        out.append(dict(name='anc-n6-split2_4', what='anc', pos=list(range(6)), segs=[2, 4], order='asc', rung=6, weight=3 ** 6, split=('enumerate', 6)))
        out.append(dict(name='heads-n6-split2_4', what='heads', pos=list(range(6)), segs=[2, 4], order='desc', rung=6, weight=4 ** 6, split=('enumerate', 6)))
    return out

def run_job(ix, job, tier):
    P = job['pos']; n = len(P); cuts = job['segs']; what = job['what']
    G = SymGraph(P, cuts, job['order']); par, gen, reach, over, index = G.par, G.gen, G.reach, G.over, G.index
    is_anc = ix.find_method(F, 'CompositeCommitIndex', 'is_ancestor_pos'); heads_pos = ix.find_method(F, 'CompositeCommitIndex', 'heads_pos')
    common = ix.find_method(F, 'CompositeCommitIndex', 'common_ancestors_pos'); all_heads = ix.find_method(F, 'CompositeCommitIndex', 'all_heads_pos')
    def small_set(e, items, kmax=2):
        """any list of <= kmax elements (with order, duplicates allowed for kmax == 2)"""
        k = e.choose(kmax + 1); return [items[e.choose(len(items))] for _ in range(k)]

    if what == 'anc':
        def run(e):
            a = P[e.choose(n)]; d = P[e.choose(n)]
            return a, d, e.call_mir(is_anc, [index, GP(a), GP(d)])
        def obligations(kind, out, pc, e):
            a, d, r = out
            yield f'is_ancestor_pos({a},{d}) == reachability of {a} from {d} in the commit graph', (reach[d, a] if r is True else z3.Not(reach[d, a]) if r is False else False)
    elif what == 'heads':
        def run(e):
            cand = subset(e, list(reversed(P)))
            return cand, plist(e.call_mir(heads_pos, [index, Vec([GP(c) for c in cand], 'Vec')]))
        def obligations(kind, out, pc, e):
            cand, r = out
            yield 'heads_pos returns a descending sub-list of the candidates', (all(x in cand for x in r) and all(x > y for x, y in zip(r, r[1:])))
            for c in cand:
                dominated = zor([reach[c2, c] for c2 in cand if c2 > c])
                yield f'candidate {c} is kept iff no other candidate descends from it', (z3.Not(dominated) if c in r else dominated)
    elif what == 'common':
        def run(e):
            s1 = small_set(e, P, job.get('kmax', 2)); s2 = small_set(e, P, job.get('kmax', 2))
            return s1, s2, plist(e.call_mir(common, [index, Vec([GP(c) for c in s1], 'Vec'), Vec([GP(c) for c in s2], 'Vec')]))
        def obligations(kind, out, pc, e):
            s1, s2, r = out
            ca = {x: z3.And(zor([reach[a, x] for a in s1]), zor([reach[b, x] for b in s2])) for x in P}
            yield 'common_ancestors_pos result is strictly descending', all(x > y for x, y in zip(r, r[1:]))
            for x in P:
                greatest = z3.And(ca[x], z3.Not(zor([z3.And(ca[y], reach[y, x]) for y in P if y > x])))
                yield f'{x} is returned iff it is a greatest common ancestor', (greatest if x in r else z3.Not(greatest))
    elif what == 'allheads':
        def run(e):
            it = e.call_mir(all_heads, [index])
            return [x.f[0] for x in e.drain_iter(e.it_of(it))]
        def obligations(kind, out, pc, e):
            yield 'all_heads_pos is ascending', all(x < y for x, y in zip(out, out[1:]))
            for x in P:
                haschild = zor([par[c, x] for c in P if c > x])
                yield f'{x} is a head iff it has no child', (z3.Not(haschild) if x in out else haschild)
    elif what == 'bitset':
        with_cap = ix.find_method(FB, 'AncestorsBitSet', 'with_capacity'); add_head = ix.find_method(FB, 'AncestorsBitSet', 'add_head')
        visit = ix.find_method(FB, 'AncestorsBitSet', 'visit_until'); contains = ix.find_method(FB, 'AncestorsBitSet', 'contains')
        def run(e):
            hs = subset(e, P)
            if not hs: raise PathEnd()
            bs = e.call_mir(with_cap, [max(P) + 1])
            for h in hs: e.call_mir(add_head, [Ref([bs], 0), GP(h)])
            v = P[e.choose(n)]
            e.call_mir(visit, [Ref([bs], 0), index, GP(v)])
            # everything in the visited 64-bit words may be queried
            res = {q: e.call_mir(contains, [Ref([bs], 0), GP(q)]) for q in P if q // 64 >= v // 64}
            # a second, deeper visit must extend, not change, the answers
            e.call_mir(visit, [Ref([bs], 0), index, GP(P[0])])
            res2 = {q: e.call_mir(contains, [Ref([bs], 0), GP(q)]) for q in P}
            return hs, v, res, res2
        def obligations(kind, out, pc, e):
            hs, v, res, res2 = out
            for tag, rr in (('', res), (' after visiting down to the root', res2)):
                for q, r in rr.items():
                    anc = zor([reach[h, q] for h in hs])
                    yield f'contains({q}){tag} == {q} is an ancestor of some head', (anc if r is True else z3.Not(anc) if r is False else False)
    return explore_job(ix, job['name'], run, obligations, overrides=over, deadline=job.get('deadline'), split=job.get('split'))

def compare_native(case, native):
    return True, ''

#!/usr/bin/env python3
"""Generate /verif/MANIFEST.json from the table below (keeps the file valid and in sync with props/*.py)."""
import json, os, importlib, sys
VERIF = os.path.dirname(os.path.dirname(os.path.abspath(__file__)))
sys.path.insert(0, VERIF)

STORE = ('statement about repository/working-copy state after histories of operations: deciding it means executing Store/Backend/OpStore/index files/'
         'Transaction/CLI on a file system (often with Git); neither Kani (heap containers exhaust memory) nor the MIR symbolic executor '
         '(thousands of bodies, FFI, threads, real I/O) can encode that; a hand model of those layers would not be the real code')
NA = {
 'C07': 'recursive concurrent tree merge over backends; ' + STORE + '. Its value-level core (per-path trivial_merge/flatten/simplify) is claimed as C01/C02.',
 'C08': 'rebase = merge_commit_trees + MergedTree::merge over stored trees and commits; ' + STORE,
 'C09': 'split/absorb operate on commits and trees in a store through the CLI; ' + STORE,
 'C10': 'visible heads are computed by the index over committed transactions; ' + STORE,
 'C11': 'rebase_descendants over a MutableRepo/index; ' + STORE,
 'C13': 'operation merge over real views/indexes and schedules of transactions; ' + STORE,
 'C15': 'crash points of a process on a file system need process kill / FS fault injection, a different technique family',
 'C17': 'Git backend = gix object encoding + files, simple backend = files; the timestamp kernel alone does not decide read==write (an observation made by reading is recorded in DESIGN.md section 5)',
 'C19': 'revset evaluation = pest parser + optimizer + index walks over a repo index; no closed kernel whose correctness is the statement',
 'C22': 'changed-path index is built from tree diffs in a store; ' + STORE,
 'C23': 'working-copy <-> disk behaviour (stat, create_new, symlinks, directories): the subject is file-system behaviour; symbolic execution would verify our FS model',
 'C24': 'working-copy <-> disk behaviour: the subject is file-system behaviour; symbolic execution would verify our FS model',
 'C25': 'working-copy <-> disk behaviour: the subject is file-system behaviour; symbolic execution would verify our FS model',
 'C27': 'working-copy <-> disk behaviour: the subject is file-system behaviour; symbolic execution would verify our FS model',
 'C28': 'oracle is the external `git check-ignore` binary and the implementation is gix-ignore/glob engines; neither is encodable, differential testing is another family',
 'C34': 'gix reference transactions on a real Git repository',
 'C35': '"parses back" is decided by the pest-generated parser (thousands of generated closures over ParserState); the escape table alone does not decide tokenisation',
 'C36': 'absence of panics/stack overflow in pest-generated recursive-descent parsers on arbitrary strings: unbounded recursion and generated code out of reach (fuzzing territory)',
 'C37': 'bisection is a revset evaluation loop over a repository; ' + STORE,
 'C38': 'annotate walks commits/files in a store and diffs them; ' + STORE,
 'C39': 'graph iterator over the index revset engine; ' + STORE,
 'C40': 'whole-CLI command histories; ' + STORE,
 'C41': 'whole-CLI command histories; ' + STORE,
 'C42': 'whole-CLI command histories; ' + STORE,
 'C43': 'file-system identity of config directories and random ids',
 'C45': 'the lease is enforced by the `git push --force-with-lease` subprocess against a remote; the jj side only formats it',
 'C46': 'evolution walk over the operation log in an op store; ' + STORE,
}
PLANNED = 'planned for the MIR symbolic executor (DESIGN.md section 4) but its check is not built yet in this revision'

LEVEL = {
 'C01': ('bounded symbolic model checking of the real MIR: every path of simplify/get_simplified_mapping/update_from_simplified/flatten for every conflict within the arity bound and every value assignment; '
         'the property is a solver query per path (denotation equality over an arbitrary probe value). Unit tests sample a 3-value table; this covers every equality pattern.', '4 C01'),
 'C12': ('bounded symbolic model checking of the real MIR of merge_ref_targets and its async helpers with the commit index replaced by an arbitrary partial order: every absent/present pattern, id equality pattern and ancestry relation within the arity bound; each clause of the statement is a solver obligation per path', '4 C12'),
 'C30': ('bounded symbolic model checking: (1) one inductive step per combinator (Union/Intersection/Difference) from the real MIR with symbolic sub-matchers that are arbitrary but sound, which covers every nesting; (2) FilesMatcher/PrefixMatcher built by the real constructors from paths with symbolic component bytes, visit() vs matches() soundness for every directory and probe path in the bound', '4 C30'),
 'C33': ('bounded symbolic model checking of the real MIR of to_git_ref_name/parse_git_ref (and the remote-tag pair) on byte strings of bounded length with every byte symbolic: export->parse and import->export round trips are solver obligations per path', '4 C33'),
 'C26': ('symbolic execution of the real MIR of the snapshot decision (async get_updated_tree_value prefix + FileState::is_clean) over full 64-bit mtimes and sizes with the clock replaced by an arbitrary monotone stamp function: the solver shows that no edit placed after the state save can be trusted clean', '4 C26'),
 'C29': ('bounded symbolic model checking of the real MIR of the EOL conversion pipeline (async probe + convert) over every byte content within the length bound, for each conversion mode; the probe-limit boundary logic is exercised with the constant overridden to 4 (reported as modified-constant jobs) and at the real constant in the thorough tier', '4 C29'),
 'C44': ('bounded symbolic model checking of the real MIR (jj-cli) of elide_start/elide_end and their position helpers over abstract characters: UTF-8 lengths enumerated, display widths (None/0/1/2) and max_width decided by the solver; width accounting, the width bound, character-boundary slicing and the unchanged-if-fits rule are solver obligations per path', '4 C44'),
 'C03': ('bounded symbolic model checking of the real MIR of the diff engine (jj-core): (a) the hunk iterator from an arbitrary valid unchanged-region state with 64-bit symbolic offsets (inductive-step shape), (c) end-to-end by_line/by_word/unrefined/diff() on inputs with symbolic bytes, symbolic hasher seed, collisions allowed and nondeterministic table order; reconstruction, alternation, non-emptiness, matching-equality are solver obligations per path and determinism is a pairwise query between paths', '4 C03'),
 'C04': ('bounded symbolic model checking of the real MIR of files::merge (line diff pipeline + resolve_diff_hunks + trivial_merge + collectors) on terms with symbolic bytes; the result is compared by the solver with the cancellation rule applied hunk-wise to the line diff (and to whole contents), for both same-change settings', '4 C04'),
 'C31': ('bounded symbolic model checking of the real MIR of FilesetExpression::to_matcher and the matcher tree it builds (incl. Box<dyn Matcher> dispatch) for every expression shape in the bound, with all path bytes symbolic: matches(q) is compared by the solver with the set semantics of the expression', '4 C31'),
 'C05': ('bounded symbolic model checking of the real MIR of conflict materialization (all four marker styles, marker-length choice, EOL detection, labels, fmt) followed by the real parser, on conflicts whose content bytes are symbolic (including marker look-alike runs, missing final newline, CRLF, empty side): hunk-for-hunk byte-for-byte equality is a solver obligation per path', '4 C05'),
 'C32': ('bounded symbolic model checking of the real MIR of from_relative_path / to_fs_path / to_fs_name on path strings of bounded length with every byte symbolic, over a byte-string model of std::path (unix) that is validated per path against the compiled code; the thorough tier adds a Kani/CBMC harness of to_fs_name over the real std::path', '4 C32'),
 'C20': ('bounded symbolic model checking of the real MIR of IdIndex (build, shortest_unique_prefix_len, resolve_prefix_*), HexPrefix::matches and hex_util::common_hex_len on id sets whose distinguishing bytes are symbolic: uniqueness, minimality and resolution-by-count are solver obligations per path', '4 C20'),
 'C21': ('bounded symbolic model checking of the real MIR of the stacked-table segment chain (save_in: squash + serialize + re-parse, binary search lookups, merge_in of divergent writers) with every key/value byte symbolic: last-writer-wins, no lost entry after a merge and lookup invariance under save are solver obligations per path', '4 C21'),
 'C14': ('partial claim. (G) bounded symbolic model checking of the real MIR of SimpleOpHeadsStore::update_op_heads with the file system as an effect log and every call able to fail: the new head is added first, only parents are removed, a failure leaves a prefix. (L) a z3 bounded model check of the protocol extracted from (G) over all interleavings/crash points of 2-3 writers (with a vacuity witness and a negative control). Readers-always-find-a-head under non-atomic readdir and the final single-head state are not covered', '4 C14'),
 'C06': ('bounded symbolic model checking of the real MIR of the async update_from_content (simplify, extract, merge_hunks, parse_conflict, update_from_simplified) with the Store replaced by a content-map stub and file contents symbolic: an unedited materialization gives back exactly the original ids (unsimplified arity), an edit of a resolved region is applied to every surviving term while cancelled pairs are untouched', '4 C06'),
 'C16': ('partial claim (round trip of views at the conversion layer). Bounded symbolic model checking of the real MIR of view_to_proto / view_from_proto and all their helpers (legacy bookmark form, remote views, ref targets, tracking state) on views whose name and id bytes are symbolic: every field of the view read back must equal the one written. Prost wire encoding, file I/O, content hashing and the operation half are not covered', '4 C16'),
 'C18': ('partial claim. (1) Bounded symbolic model checking of the real MIR of CompositeCommitIndex::{entry_by_pos, is_ancestor_pos, heads_pos, common_ancestors_pos, all_heads_pos} and AncestorsBitSet/PositionsBitSet with the parent relation of the commit graph fully symbolic (one solver boolean per pair of positions, generation numbers as terms over them) and the index split over 1-3 stacked abstract segments: each answer is compared by the solver with the transitive closure of the symbolic graph on every path. (2) The real segments on small instances with symbolic ids: MutableCommitIndexSegment::add_commit_data, serialize_local_entries, ReadonlyCommitIndexSegment::load_with_parent_file and every CommitIndexSegment accessor of both (incl. the parent and change overflow tables and a stacked segment) must report exactly what was added. Squashing, merge_in of divergent indexes, the index store and larger histories are not covered', '4 C18'),
 'C19': ('partial claim (the default engine on resolved expressions). Bounded symbolic model checking of the real MIR of EvaluationContext::evaluate and everything below it (RevWalkBuilder and the ancestor / generation-range / descendant walks, RevWalkQueue, the Union/Intersection/Difference walk and predicate adapters, FilterRevset, heads/roots/forks/fork-point/merge-point/reachable nodes) over a commit graph whose parent relation is fully symbolic: for each node type of ResolvedExpression applied to explicit commit sets, the yielded position stream is compared by the solver with the set-theoretic definition over the symbolic graph (membership of every position, strictly descending order) on every path. One-node step that composes over expression trees. Parser, lowering, optimize(), symbol/visibility resolution, Latest and content filters are not covered', '4 C19'),
 'C39': ('partial claim (the graph walk of the default index; not the topological regrouping or the renderer). Bounded symbolic model checking of the real MIR of RevsetGraphWalk (look-ahead, cached edges of hidden commits, transitive edge removal) over a commit graph whose parent relation is fully symbolic and every shown subset of it: node order, the meaning of every direct / indirect / missing edge, exactness of the edge set without transitive-edge skipping, and that the edges imply exactly the ancestry between shown commits are solver obligations on every path', '4 C39'),
 'C02': ('bounded symbolic model checking of the real MIR of trivial_merge/resolve_trivial incl. the HashMap counting path with nondeterministic iteration order; result compared by the solver with an independent counting oracle on every path', '4 C02'),
}

def main():
    props = [json.loads(l) for l in open(os.path.join(VERIF, 'properties.jsonl'))]
    checks, na = [], []
    for p in props:
        pid = p['id']
        if os.path.exists(os.path.join(VERIF, 'props', pid.lower() + '.py')) and pid in LEVEL:
            mod = importlib.import_module('props.' + pid.lower())
            text, ref = LEVEL[pid]
            checks.append(dict(
                property_id=pid, quick_cmd=f'./check {pid} --tier quick', thorough_cmd=f'./check {pid} --tier thorough',
                evidence_file=f'evidence/{pid}.json', replay_cmd_template=f'./check {pid} --replay {{path}}', engine=getattr(mod, 'ENGINE', 'mirsym'),
                level_claimed=dict(category='model_checking', text=text, design_ref='DESIGN.md section ' + ref),
                level_note='Bounds: ' + mod.BOUNDS['quick'] + ' (quick); ' + mod.BOUNDS['thorough'] + ' (thorough). Trusted: rustc nightly MIR of the current tree, the MIR interpreter and its std models '
                           '(validated per path against the compiled code by the native replay runner), z3. Assumptions: ' + '; '.join(mod.ASSUMPTIONS),
                technique=getattr(mod, 'TECHNIQUE', 'symbolic execution of rustc MIR (path-forking) + z3 SMT queries per path; counterexamples replayed against the compiled code')))
        else:
            na.append(dict(property_id=pid, reason=NA.get(pid, PLANNED)))
    man = dict(
        version=1,
        setup_cmd='./setup.sh',
        hooks=dict(guard='jj_vcs_jj_verif', enable='no source hooks are needed: checks read rustc MIR of the unmodified crates (cargo +nightly rustc -- -Zunpretty=mir) and link /repo/lib as a path dependency',
                   baseline_off_cmd='cd /repo && cargo nextest run --workspace --no-fail-fast --test-threads 8 --offline || cargo test --workspace --no-fail-fast --offline',
                   source_commits=[], add_only=True),
        engines=[dict(name='mirsym', path='mirsym/', serves_properties=[c['property_id'] for c in checks if c['engine'] == 'mirsym'],
                      kind_free_text='path-forking symbolic executor for rustc MIR text regenerated from /repo on every run; z3 decides feasibility and one obligation per property clause per path; native Rust runner (replay/) replays path witnesses and counterexamples against the compiled code'),
                 dict(name='kani', path='kani/', serves_properties=[c['property_id'] for c in checks if c['engine'] == 'kani'],
                      kind_free_text='Kani/CBMC proof harnesses over the real std + jj code for slice/integer kernels')],
        checks=checks,
        notes='Technique family: solver-based checking of the real code. Exit codes: 0 held within bounds, 1 VIOLATION (reproduced natively), 2 inconclusive. See DESIGN.md.',
        not_applicable=na)
    json.dump(man, open(os.path.join(VERIF, 'MANIFEST.json'), 'w'), indent=1)
    print(f'{len(checks)} checks, {len(na)} not applicable')

if __name__ == '__main__':
    main()

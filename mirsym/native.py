"""Native replay runner: a small Rust binary (path-depends on /repo/lib, rebuilt from the current tree) that runs the
real public API on concrete inputs and evaluates the property natively."""
import os, subprocess, json, shutil, fcntl, sys, time
from . import front

VERIF = os.path.dirname(os.path.dirname(os.path.abspath(__file__)))
CRATES = {'lib': ('replay', 'jjreplay'), 'cli': ('replay_cli', 'jjreplay-cli')}
WHICH = {'c44': 'cli'}
_built = {}

def build(profile='dev', which='lib'):
    """build the runner against front.REPO (default /repo).  The crate sources live in /verif/<crate>; a copy with the repository
    path substituted is placed in the cache so that the same sources can be built against a scratch worktree (VERIF_REPO)."""
    if (profile, which) in _built: return _built[(profile, which)]
    import hashlib
    src = os.path.join(VERIF, CRATES[which][0])
    tag = 'main' if os.path.realpath(front.REPO) == '/repo' else hashlib.sha256(os.path.realpath(front.REPO).encode()).hexdigest()[:10]
    crate = os.path.join(front.CACHE, 'replay-crates', f'{which}-{tag}')
    tdir = os.path.join(front.CACHE, 'replay-target' if tag == 'main' else f'replay-target-{tag}')
    os.makedirs(tdir, exist_ok=True); os.makedirs(os.path.join(crate, 'src'), exist_ok=True)
    with open(os.path.join(front.CACHE, f'.lock-replay-{which}-{tag}'), 'w') as lk:
        fcntl.flock(lk, fcntl.LOCK_EX)
        def sync(a, b, subst=False):
            txt = open(a).read()
            if subst: txt = txt.replace('"/repo/', '"' + os.path.realpath(front.REPO) + '/')
            if not os.path.exists(b) or open(b).read() != txt: open(b, 'w').write(txt)
        sync(os.path.join(src, 'Cargo.toml'), os.path.join(crate, 'Cargo.toml'), subst=True)
        for f in os.listdir(os.path.join(src, 'src')): sync(os.path.join(src, 'src', f), os.path.join(crate, 'src', f))
        for f in os.listdir(os.path.join(crate, 'src')):
            if not os.path.exists(os.path.join(src, 'src', f)): os.remove(os.path.join(crate, 'src', f))
        lock = os.path.join(crate, 'Cargo.lock')
        # keep dependency versions pinned to the repository's lock file
        if not os.path.exists(lock) or os.path.getmtime(lock) < os.path.getmtime(os.path.join(front.REPO, 'Cargo.lock')):
            shutil.copy(os.path.join(front.REPO, 'Cargo.lock'), lock)
        env = dict(os.environ, CARGO_NET_OFFLINE='true', CARGO_TARGET_DIR=tdir, CARGO_TERM_COLOR='never', RUSTUP_TOOLCHAIN='stable')
        env.pop('RUSTFLAGS', None)
        cmd = ['cargo', 'build', '--offline', '--manifest-path', os.path.join(crate, 'Cargo.toml')] + (['--release'] if profile == 'release' else [])
        t0 = time.time()
        r = subprocess.run(cmd, env=env, stdout=subprocess.PIPE, stderr=subprocess.STDOUT, text=True)
        if r.returncode != 0:
            raise RuntimeError('replay runner build failed:\n' + r.stdout[-3000:])
        if time.time() - t0 > 5: print(f'[native] built replay runner ({which}) in {time.time() - t0:.0f}s', file=sys.stderr)
    _built[(profile, which)] = os.path.join(tdir, 'release' if profile == 'release' else 'debug', CRATES[which][1])
    return _built[(profile, which)]

def run(prop, cases, timeout=600, profile='dev'):
    exe = build(profile, WHICH.get(prop, 'lib'))
    inp = '\n'.join(json.dumps(c) for c in cases) + '\n'
    r = subprocess.run([exe, prop], input=inp, stdout=subprocess.PIPE, stderr=subprocess.PIPE, text=True, timeout=timeout)
    outs = [json.loads(l) for l in r.stdout.splitlines() if l.strip()]
    if len(outs) != len(cases):
        raise RuntimeError(f'replay runner returned {len(outs)} results for {len(cases)} cases (exit {r.returncode}): {r.stderr[-1000:]}')
    return outs

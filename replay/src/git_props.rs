use jj_lib::git::GitRefKind;
use jj_lib::git::parse_git_ref;
use jj_lib::ref_name::GitRefName;
use serde_json::Value;
use serde_json::json;

pub fn c33(case: &Value) -> Value {
    let bytes: Vec<u8> = case["ref"].as_array().unwrap().iter().map(|b| b.as_u64().unwrap() as u8).collect();
    let s = String::from_utf8(bytes).unwrap();
    let out = match parse_git_ref(GitRefName::new(&s)) {
        None => Value::Null,
        Some((kind, symbol)) => json!({
            "kind": match kind { GitRefKind::Bookmark => "Bookmark", GitRefKind::Tag => "Tag" },
            "name": symbol.name.as_str().as_bytes(),
            "remote": symbol.remote.as_str().as_bytes(),
        }),
    };
    // to_git_ref_name is private: natively only the parse direction can be observed; `holds` = the documented prefix rule
    let holds = match &out {
        Value::Null => !(s.starts_with("refs/tags/") || (s.starts_with("refs/heads/") && s != "refs/heads/HEAD")),
        v => {
            let name = String::from_utf8(v["name"].as_array().unwrap().iter().map(|b| b.as_u64().unwrap() as u8).collect()).unwrap();
            let remote = String::from_utf8(v["remote"].as_array().unwrap().iter().map(|b| b.as_u64().unwrap() as u8).collect()).unwrap();
            let rebuilt = match (v["kind"].as_str().unwrap(), remote.as_str()) {
                ("Bookmark", "git") => format!("refs/heads/{name}"),
                ("Bookmark", r) => format!("refs/remotes/{r}/{name}"),
                (_, _) => format!("refs/tags/{name}"),
            };
            rebuilt == s
        }
    };
    // export cases carry the symbol that was exported (by the interpreted to_git_ref_name): parsing must give it back
    let holds = if case.get("symbol").is_some() { holds && out == case["symbol"] } else { holds };
    json!({"out": out, "holds": holds, "why": if holds { vec![] } else { vec!["parsed symbol does not rebuild the ref name"] }})
}

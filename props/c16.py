"""C16  Operations and views round-trip  (lib/src/simple_op_store.rs conversion layer)

Real code from MIR: view_to_proto / view_from_proto, bookmark_views_to_proto_legacy / from_proto_legacy, op_store::merge_join_ref_views,
remote_views_*, remote_refs_*, ref_target_to_proto / from_proto, ref_target_to_terms_proto / from_terms_proto, remote_ref_state_*,
and the From/Into conversions of the name newtypes.
Symbolic: every name byte and id byte (one byte each, equalities and order decided by the solver); enumerated: the shape of the
view (how many entries per map, target arities, absent terms, tracking state).
Not executed: prost byte encoding/decoding and file I/O (library + file system); content hashing (BLAKE2).  The claim is the
lossless conversion View <-> proto, which is where the legacy bookmark form lives.
"""
import itertools, re, z3
from mirsym.harness import *
from mirsym.engine import NONE, SOME, It
from mirsym.models2 import BTreeMapM

ID = 'C16'
TECHNIQUE = 'symbolic execution of rustc MIR (path-forking) + z3 SMT queries per path; violations reported on the solver verdict (conversion functions are private; no native replay)'
CRATES = ['jj-lib']
NATIVE = None
NATIVE_CONFIRM = False      # the conversion functions are private; the public path goes through files
BOUNDS = {
    'quick': 'views with 1-2 heads, 0-1 local bookmarks, 0-1 local tags, 0-1 remotes with 0-1 remote bookmarks and 0-1 remote tags (state New/Tracked), 0-1 git refs, 0-1 git heads, 1 workspace; targets resolved-present, resolved-absent (remote only) or a 3-term conflict with one absent term in each of the three positions (add/add without base, change/delete, delete/change); names and ids are single symbolic bytes',
    'thorough': 'up to 2 local bookmarks and 2 remotes',
}
ASSUMPTIONS = [
    'validity predicate of stored views: a local bookmark / tag / git ref never maps to an absent target (the View setters never create such entries)',
    'only the View <-> proto conversion is executed; prost wire encoding, file I/O and BLAKE2 content addressing are outside; the operation half (operation_to_proto/from_proto) is not covered in this revision',
    'names and ids are single bytes (the code only orders, compares and clones them)',
]
BUDGET = {'quick': 900, 'thorough': 3000}
F = 'lib/src/simple_op_store.rs'

# conflict = add/add with absent base, conflictd = change/delete (second add absent), conflictn = delete/change (first add absent)
TARGETS = ['normal', 'conflict', 'conflictd', 'conflictn']            # for local refs
RTARGETS = ['normal', 'absent', 'conflict', 'conflictd', 'conflictn'] # for remote refs

def jobs(tier):
    out = []
    def add(name, **kw): out.append(dict(name=name, rung=kw.pop('rung', 0), weight=kw.pop('weight', 1), **kw))
    for lb in (None,) + tuple(TARGETS):
        for rb in (None,) + tuple(RTARGETS):
            for st in ('New', 'Tracked'):
                if rb is None and st == 'Tracked': continue
                add(f'bookmarks-l{lb}-r{rb}-{st}', lb=lb, rb=rb, rstate=st, weight=3)
    for lt in TARGETS:
        for rt in (None,) + tuple(RTARGETS): add(f'tags-l{lt}-r{rt}', lt=lt, rt=rt, weight=3)
    for g in TARGETS: add(f'gitref-{g}', gitref=g); add(f'githead-{g}', githead=g)
    add('heads2', heads=2); add('full', lb='conflict', rb='normal', rstate='Tracked', lt='normal', rt='conflict', gitref='normal', githead='normal', heads=2, rung=1, weight=20)
    if tier == 'thorough': add('two-bookmarks', lb='normal', lb2='conflict', rb='normal', rstate='New', rung=2, weight=30)
    return out

def run_job(ix, job, tier):
    to_proto = ix.find('view_to_proto', file=F); from_proto = ix.find('view_from_proto', file=F)
    counter = [0]; syms = []
    def sb(prefix):
        counter[0] += 1; b = byte(f'{prefix}{counter[0]}'); syms.append(b); return b
    def cid(): return Agg([Vec([sb('id')], 'Vec')], 'CommitId')
    def name(ty): return Agg([Vec([sb('n')], 'String')], ty)
    def target(kind):
        if kind == 'normal': terms = [SOME(cid())]
        elif kind == 'absent': terms = [NONE()]
        elif kind == 'conflictd': terms = [SOME(cid()), SOME(cid()), NONE()]
        elif kind == 'conflictn': terms = [NONE(), SOME(cid()), SOME(cid())]
        else: terms = [SOME(cid()), NONE(), SOME(cid())]
        return Agg([mk_merge(terms)], 'op_store::RefTarget')
    def bt(pairs):
        m = BTreeMapM(); m.items = [(k, [v]) for k, v in pairs]; return m
    def rref(kind, st): return mk_struct(ix, 'lib/src/op_store.rs', 'RemoteRef', ty='RemoteRef', target=target(kind), state=Enum(st, ty='RemoteRefState'))
    lbs = [(name('RefNameBuf'), target(job[k])) for k in ('lb', 'lb2') if job.get(k)]
    lts = [(name('RefNameBuf'), target(job['lt']))] if job.get('lt') else []
    remote = None
    if job.get('rb') or job.get('rt'):
        rbm = [(name('RefNameBuf'), rref(job['rb'], job.get('rstate', 'New')))] if job.get('rb') else []
        rtm = [(name('RefNameBuf'), rref(job['rt'], 'Tracked'))] if job.get('rt') else []
        remote = (name('RemoteNameBuf'), mk_struct(ix, 'lib/src/op_store.rs', 'RemoteView', ty='RemoteView', bookmarks=bt(rbm), tags=bt(rtm)))
    gitrefs = [(name('GitRefNameBuf'), target(job['gitref']))] if job.get('gitref') else []
    githeads = [(name('WorkspaceNameBuf'), target(job['githead']))] if job.get('githead') else []
    heads = [cid() for _ in range(job.get('heads', 1))]
    wcs = [(name('WorkspaceNameBuf'), cid())]
    # keys inside one map must be distinct (they are map keys); head ids distinct (set)
    def first_byte(v): return deref(v.f[0]).l[0]
    pre = [z3.And(b != 0) for b in syms]
    if len(lbs) == 2: pre.append(first_byte(lbs[0][0]) != first_byte(lbs[1][0]))
    if len(heads) == 2: pre.append(first_byte(heads[0]) != first_byte(heads[1]))
    def sort_pairs(e, pairs):           # BTreeMap invariant: sorted by key (decided by forking)
        return sorted(pairs, key=lambda kv: 0) if len(pairs) <= 1 else (pairs if e.cmp3(pairs[0][0], pairs[1][0]) == 'Less' else pairs[::-1])
    def run(e):
        view = mk_struct(ix, 'lib/src/op_store.rs', 'View', ty='op_store::View', head_ids=Vec(list(heads), 'HashSet'), local_bookmarks=bt(sort_pairs(e, lbs)), local_tags=bt(lts),
                         remote_views=bt([remote] if remote else []), git_refs=bt(gitrefs), git_heads=bt(githeads), wc_commit_ids=bt(wcs))
        proto = e.call_mir(to_proto, [Ref([view], 0)])
        back = e.call_mir(from_proto, [proto])
        if back.v != 'Ok': return ('err', None, None)
        return ('ok', view, back.f[0])
    def veq(a, b):
        """structural equality formula of two interpreter values"""
        def norm(x):
            x = deref(x)
            while isinstance(x, Agg) and len(x.f) == 1 and x.ty not in ('arr', 'tup'): x = deref(x.f[0])       # newtypes (ids, names, RefTarget)
            return x
        a, b = norm(a), norm(b)
        if isinstance(a, BTreeMapM) or isinstance(b, BTreeMapM):
            if not (isinstance(a, BTreeMapM) and isinstance(b, BTreeMapM)) or len(a.items) != len(b.items): return z3.BoolVal(False)
            return zand([z3.And(veq(k1, k2), veq(c1[0], c2[0])) for (k1, c1), (k2, c2) in zip(a.items, b.items)])
        if isinstance(a, Vec) and a.ty == 'HashSet':
            if len(a.l) != len(b.l): return z3.BoolVal(False)
            return zand([zor([veq(x, y) for y in b.l]) for x in a.l] + [zor([veq(x, y) for y in a.l]) for x in b.l])
        if isinstance(a, Enum):
            if not isinstance(b, Enum) or a.v != b.v or len(a.f) != len(b.f): return z3.BoolVal(False)
            return zand([veq(x, y) for x, y in zip(a.f, b.f)])
        if isinstance(a, Agg):
            if not isinstance(b, Agg) or len(a.f) != len(b.f): return z3.BoolVal(False)
            return zand([veq(x, y) for x, y in zip(a.f, b.f)])
        if isinstance(a, (Vec, Str, SliceRef)):
            if not isinstance(b, (Vec, Str, SliceRef)): return z3.BoolVal(False)
            la = a.l if isinstance(a, Vec) else (a.b if isinstance(a, Str) else a.items()); lb_ = b.l if isinstance(b, Vec) else (b.b if isinstance(b, Str) else b.items())
            if len(la) != len(lb_): return z3.BoolVal(False)
            return zand([veq(x, y) for x, y in zip(la, lb_)])
        r = (a == b)
        return z3.BoolVal(bool(r)) if isinstance(r, bool) else r
    names = struct_fields(ix, 'lib/src/op_store.rs', 'View')
    def obligations(k, out, pc, e):
        st, view, back = out
        yield 'a written view reads back (no post-decode error)', st == 'ok'
        if st != 'ok': return
        for i, fname in enumerate(names):
            yield f'View.{fname} reads back identical', veq(view.f[i], back.f[i])
    return explore_job(ix, job['name'], run, obligations, pre=zand(pre), deadline=job.get('deadline'))

def compare_native(case, native): return True, ''

"""Path-forking symbolic interpreter for rustc MIR text (prototype v2)."""
import re, itertools, time
import z3
from .mir import MirIndex, split_top, strip_lifetimes, last_seg, type_key, AnchorError

# ------------------------------------------------------------------ values
class Agg:
    __slots__ = ('f', 'ty', 'env')
    def __init__(self, fields, ty=None): self.f, self.ty, self.env = list(fields), ty, None
    def __repr__(self): return f'{self.ty or "Agg"}{self.f}'
class Enum:
    __slots__ = ('v', 'f', 'ty')
    def __init__(self, v, fields=(), ty=None): self.v, self.f, self.ty = v, list(fields), ty
    def __repr__(self): return f'{self.v}{self.f if self.f else ""}'
class Ref:
    __slots__ = ('c', 'k')
    def __init__(self, c, k): self.c, self.k = c, k
    def get(self): return self.c[self.k]
    def set(self, v): self.c[self.k] = v
    def __repr__(self):
        try: return f'&{self.get()!r}'
        except Exception: return '&<uninit>'
class SliceRef:
    __slots__ = ('l', 'lo', 'hi')
    def __init__(self, l, lo=0, hi=None): self.l, self.lo, self.hi = l, lo, len(l) if hi is None else hi
    def __len__(self): return self.hi - self.lo
    def items(self): return self.l[self.lo:self.hi]
    def __repr__(self): return f'&{self.items()!r}'
class Vec:
    __slots__ = ('l', 'ty')
    def __init__(self, items=(), ty='Vec'): self.l, self.ty = list(items), ty
    def __repr__(self): return f'{self.ty}{self.l}'
class Coro:
    def __init__(self, pollfn, upvars, tag): self.pollfn, self.up, self.state, self.slots, self.tag, self.env = pollfn, list(upvars), 0, {}, tag, None
    def __repr__(self): return f'Coro<{self.pollfn}@{self.state}>'
class Slots:                      # view of coroutine saved locals
    def __init__(self, coro): self.coro = coro
class StubFuture:
    def __init__(self, value): self.value = value
class UBox:
    def __init__(self): self.cell = [TRANSP]
class _Transp:
    def __repr__(self): return '<transparent>'
TRANSP = _Transp()
class It:
    def __init__(self, kind, **kw): self.kind = kind; self.__dict__.update(kw)
    def __repr__(self): return f'It<{self.kind}>'

class FnItem:
    def __init__(self, name): self.name = name
    def __repr__(self): return f'fn {self.name}'
class Panic(Exception): pass
class PathEnd(Exception): pass
class EngineError(Exception): pass
class Cut(Exception): pass

def NONE(): return Enum('None', ty='Option')
def SOME(x): return Enum('Some', [x], 'Option')
def OK(x): return Enum('Ok', [x], 'Result')
def ERR(x): return Enum('Err', [x], 'Result')
UNIT = Agg([], 'unit')

STD_ENUMS = {
    'Option': ['None', 'Some'], 'Result': ['Ok', 'Err'], 'Poll': ['Ready', 'Pending'],
    'ControlFlow': ['Continue', 'Break'], 'Ordering': ['Less', 'Equal', 'Greater'],
    'Cow': ['Borrowed', 'Owned'], 'Entry': ['Occupied', 'Vacant'], 'Bound': ['Included', 'Excluded', 'Unbounded'],
    'EitherOrBoth': ['Both', 'Left', 'Right'], 'Component': ['Prefix', 'RootDir', 'CurDir', 'ParentDir', 'Normal'],
    'ErrorKind': ['NotFound', 'PermissionDenied', 'ConnectionRefused', 'ConnectionReset', 'HostUnreachable', 'NetworkUnreachable', 'ConnectionAborted', 'NotConnected', 'AddrInUse', 'AddrNotAvailable', 'NetworkDown', 'BrokenPipe', 'AlreadyExists', 'WouldBlock', 'NotADirectory', 'IsADirectory', 'DirectoryNotEmpty', 'ReadOnlyFilesystem', 'FilesystemLoop', 'StaleNetworkFileHandle', 'InvalidInput', 'InvalidData', 'TimedOut', 'WriteZero', 'StorageFull', 'NotSeekable', 'QuotaExceeded', 'FileTooLarge', 'ResourceBusy', 'ExecutableFileBusy', 'Deadlock', 'CrossesDevices', 'TooManyLinks', 'InvalidFilename', 'ArgumentListTooLong', 'Interrupted', 'Unsupported', 'UnexpectedEof', 'OutOfMemory', 'InProgress', 'Other', 'Uncategorized'], 'Either': ['Left', 'Right'], 'AssertKind': ['Eq', 'Ne', 'Match'], 'MinMaxResult': ['NoElements', 'OneElement', 'MinMax'],
}
ORDERING_DISCR = {'Less': -1, 'Equal': 0, 'Greater': 1}

def deref(x):
    while isinstance(x, Ref): x = x.get()
    return x

# ------------------------------------------------------------------ engine
class Engine:
    def __init__(self, index: MirIndex, overrides=None, enum_src_dirs=('lib/src', 'core/src', 'cli/src')):
        self.ix = index
        self.overrides = overrides or []          # [(regex, fn(engine, callee, args))]
        self.solver = None; self.pc = []
        self.decisions = []; self.replay = []; self.split_depth = None; self.truncated = None; self.cuts = []; self.all_pcs = []; self.cut_pcs = []; self.prefix_pc = None; self._prefix_len = 0
        self.stats = dict(paths=0, steps=0, queries=0, calls=0)
        self._pcache = index.__dict__.setdefault('_pcache', {}); self._enum_cache = dict(STD_ENUMS); self._enum_discr = {}; self._enum_alts = {}; self._res_cache = {}
        self.enum_src_dirs = enum_src_dirs
        self.call_stack = []; self.trace = bool(__import__('os').environ.get('MIRSYM_TRACE')); self.env_stack = [{}]; self._gen_cache = index.__dict__.setdefault('_gen_cache', {})
        self.models = []                           # [(compiled regex, fn)]
        self.touched = {}; self.cov = set(); self.const_overrides = {}; self.max_orders = 720; self.notes = set(); self._statics = {}
        from . import models, models2, models3, models4
        models.register(self); models2.register2(self); models3.register3(self); models4.register4(self); models4.register_path(self)
        from . import models5; models5.register5(self)
        from . import models6; models6.register6(self)

    # ---------------- forking
    def choose(self, n):
        if n <= 1: return 0
        i = len(self.decisions)
        if self.prefix_pc is None and i >= getattr(self, '_prefix_len', 0): self.prefix_pc = list(self.pc)       # constraints implied by the forced prefix
        if self.split_depth is not None and i >= self.split_depth and i >= len(self.replay): raise Cut()
        d = self.replay[i] if i < len(self.replay) else 0
        self.decisions.append((d, n)); return d

    def pick_order(self, n):
        """nondeterministic iteration order of an unordered container with n elements: a fork over all n! permutations, or, when
        n! exceeds self.max_orders, over the identity and the reversed order only (an under-approximation, recorded in self.notes)"""
        import math
        if n <= 1: return list(range(n))
        if math.factorial(n) <= self.max_orders:
            perms = list(itertools.permutations(range(n))); return list(perms[self.choose(len(perms))])
        self.notes.add(f'iteration orders of a {n}-element unordered container restricted to identity and reverse')
        return list(range(n)) if self.choose(2) == 0 else list(range(n - 1, -1, -1))

    def branch(self, cond):
        if isinstance(cond, bool): return cond
        if isinstance(cond, int): return cond != 0
        cond = z3.simplify(cond)
        if z3.is_true(cond): return True
        if z3.is_false(cond): return False
        feas = []
        for val in (True, False):
            self.stats['queries'] += 1
            self.solver.push(); self.solver.add(cond if val else z3.Not(cond))
            r = self.solver.check()
            if r == z3.sat: feas.append(val)
            elif r == z3.unknown: raise EngineError('solver unknown in feasibility check')
            self.solver.pop()
        if not feas: raise PathEnd()
        val = feas[0] if len(feas) == 1 else feas[self.choose(2)]
        c = cond if val else z3.Not(cond)
        self.solver.add(c); self.pc.append(c); return val

    def assume(self, cond):
        if isinstance(cond, bool):
            if not cond: raise PathEnd()
            return
        self.solver.add(cond); self.pc.append(cond)
        self.stats['queries'] += 1
        if self.solver.check() != z3.sat: raise PathEnd()

    def explore(self, run, max_paths=10**9, deadline=None, prefix=None, split_depth=None):
        """Depth-first enumeration of all feasible paths by re-execution.
        prefix: fixed initial decisions (this call explores only paths extending it).
        split_depth: if set, do not descend below that many decisions; instead return the list of cut prefixes in self.cuts."""
        results = []; prefix = list(prefix or []); self.replay = list(prefix); self.truncated = None; self.cuts = []; self.cut_pcs = []; self.prefix_pc = None; self._prefix_len = len(prefix)
        self.split_depth = split_depth
        while True:
            self.decisions = []; self.pc = []; self.solver = z3.Solver(); self.call_stack = []; self.env_stack = [{}]; self._statics = {}
            try:
                r = run(self); results.append(('ok', r, list(self.pc)))
            except Panic as p: results.append(('panic', str(p), list(self.pc)))
            except PathEnd: pass
            except Cut: self.cuts.append([x for x, _ in self.decisions]); self.cut_pcs.append(list(self.pc))
            self.stats['paths'] += 1
            d = self.decisions
            while len(d) > len(prefix) and d[-1][0] + 1 >= d[-1][1]: d.pop()
            if len(d) <= len(prefix): break
            if len(results) >= max_paths: self.truncated = 'max_paths'; break
            if deadline is not None and time.time() > deadline: self.truncated = 'deadline'; break
            self.replay = [x for x, _ in d[:-1]] + [d[-1][0] + 1]
        self.all_pcs = results
        return results

    # ---------------- enum tables
    def _load_enums(self):
        import os
        self._enums_loaded = True
        shared = getattr(self.ix, '_enum_tables', None)
        if shared is not None: self._enum_cache, self._enum_discr, self._enum_alts = shared; return
        self._enum_discr = {}; self._enum_alts = {}; self._enum_file = {}
        self.ix._enum_tables = (self._enum_cache, self._enum_discr, self._enum_alts)
        for d in self.enum_src_dirs:
            base = os.path.join(self.ix.repo, d)
            for root, _, files in os.walk(base):
                for fn in files:
                    if not fn.endswith('.rs'): continue
                    txt = open(os.path.join(root, fn)).read()
                    for m in re.finditer(r'\benum (\w+)\b[^{;]*\{', txt):
                        i = m.end(); depth = 1; j = i
                        while depth and j < len(txt):
                            c = txt[j]
                            if c == '{': depth += 1
                            elif c == '}': depth -= 1
                            j += 1
                        body = re.sub(r'//[^\n]*', '', txt[i:j - 1])
                        body = re.sub(r'#\[[^\]]*\]', '', body)
                        # protect byte/char literals (they may contain brackets or commas)
                        lits = []
                        def _lit(mm): lits.append(mm.group(0)); return f'@LIT{len(lits) - 1}@'
                        body = re.sub(r"b?'(?:\\.|[^'\\])'", _lit, body)
                        vs = []; discr = {}; nextval = 0
                        for part in split_top(body):
                            mm = re.match(r'\s*(\w+)', part)
                            if not mm: continue
                            name = mm.group(1); vs.append(name)
                            dm = re.search(r'=\s*(.+?)\s*$', part) if not re.search(r'[({]', part) else None
                            if dm:
                                lit = re.sub(r'@LIT(\d+)@', lambda q: lits[int(q.group(1))], dm.group(1))
                                try:
                                    if lit.startswith("b'") or lit.startswith("'"):
                                        inner = lit[2:-1] if lit.startswith('b') else lit[1:-1]
                                        nextval = ord(inner.encode().decode('unicode_escape'))
                                    else: nextval = int(re.sub(r'_?[ui]\d+$|_', '', lit), 0)
                                except Exception: pass
                            discr[name] = nextval; nextval += 1
                        nm = m.group(1)
                        if nm in self._enum_cache and self._enum_cache[nm] != vs and nm not in STD_ENUMS:
                            # same enum name defined twice (e.g. function-local `enum State`): keep alternatives, merge variant names
                            self._enum_alts.setdefault(nm, [(list(self._enum_cache[nm]), dict(self._enum_discr.get(nm, {})), self._enum_file.get(nm))]).append((vs, discr, os.path.relpath(os.path.join(root, fn), self.ix.repo)))
                            self._enum_cache[nm] = self._enum_cache[nm] + [v for v in vs if v not in self._enum_cache[nm]]
                        else:
                            self._enum_cache.setdefault(nm, vs); self._enum_discr.setdefault(nm, discr); self._enum_file.setdefault(nm, os.path.relpath(os.path.join(root, fn), self.ix.repo))

    def enum_variants(self, ty):
        if not getattr(self, '_enums_loaded', False): self._load_enums()
        if ty in self._enum_cache: return self._enum_cache[ty]
        raise EngineError('unknown enum ' + ty)

    def discr(self, e):
        if isinstance(e, Coro): return e.state
        if not isinstance(e, Enum): raise EngineError(f'discriminant of {e!r}')
        if e.ty == 'Ordering': return ORDERING_DISCR[e.v]
        if e.ty is None:
            for t, vs in STD_ENUMS.items():
                if e.v in vs: return vs.index(e.v)
            raise EngineError(f'enum without type {e!r}')
        vs = self.enum_variants(e.ty)
        alts = getattr(self, '_enum_alts', {}).get(e.ty)
        if alts:
            cands = {(d.get(e.v) if e.v in d else None) for v_, d, f_ in alts if e.v in v_}
            if len(cands) == 1 and None not in cands: return cands.pop()
            cur = self.call_stack[-1].file if self.call_stack else None
            here = [d for v_, d, f_ in alts if e.v in v_ and f_ == cur]
            if len(here) == 1 and e.v in here[0]: return here[0][e.v]            # same-named enums: the one defined in the file of the running function
            # variant name occurs in several same-named enums at different positions: disambiguate by the sibling variants is impossible here
            raise EngineError(f'ambiguous discriminant of {e.ty}::{e.v}')
        d = self._enum_discr.get(e.ty)
        if d and e.v in d: return d[e.v]
        return vs.index(e.v)

    # ---------------- places
    def parse_place(self, s):
        p = self._pcache.get(s)
        if p is None: p = self._parse_place(s.strip()); self._pcache[s] = p
        return p

    def _match_close(self, s, i):
        d = 0
        for j in range(i, len(s)):
            if s[j] in '([': d += 1
            elif s[j] in ')]':
                d -= 1
                if d == 0: return j
        raise EngineError('unbalanced ' + s)

    def _parse_place(self, s):
        if re.fullmatch(r'_\d+', s): return ('local', int(s[1:]))
        if s.endswith(']'):
            d = 0
            for i in range(len(s) - 1, -1, -1):
                if s[i] == ']': d += 1
                elif s[i] == '[':
                    d -= 1
                    if d == 0: break
            return ('index', self._parse_place(s[:i]), s[i + 1:-1])
        if s.startswith('(') and self._match_close(s, 0) == len(s) - 1:
            inner = s[1:-1]
            if inner.startswith('*'): return ('deref', self._parse_place(inner[1:]))
            # base
            if inner.startswith('('): j = self._match_close(inner, 0) + 1
            else: j = re.match(r'_\d+', inner).end()
            while j < len(inner) and inner[j] == '[': j = self._match_close(inner, j) + 1
            base, rest = inner[:j], inner[j:]
            m = re.match(r' as ([\w#]+)$', rest)
            if m: return ('downcast', self._parse_place(base), m.group(1))
            m = re.match(r'\.(\d+): ', rest)
            if m: return ('field', self._parse_place(base), int(m.group(1)), rest[m.end():])
        raise EngineError('place syntax: ' + s)

    def place(self, fr, s):
        return self._place(fr, self.parse_place(s))

    def _place(self, fr, p):
        k = p[0]
        if k == 'local': return fr, p[1]
        if k == 'deref':
            c, kk = self._place(fr, p[1]); r = c[kk]
            if isinstance(r, Ref): return r.c, r.k
            if isinstance(r, (SliceRef, UBox)):
                return (r.cell, 0) if isinstance(r, UBox) else ([r], 0)
            if isinstance(r, Agg) and r.ty in ('Pin',): return self._deref_val(r.f[0])
            raise EngineError(f'deref of {r!r}')
        if k == 'downcast':
            c, kk = self._place(fr, p[1]); v = c[kk]
            if isinstance(v, Coro): return [Slots(v)], 0
            if isinstance(v, Enum) and p[2] != v.v and not p[2].startswith('variant#'):
                raise EngineError(f'downcast {v!r} as {p[2]}')
            return c, kk
        if k == 'field':
            c, kk = self._place(fr, p[1]); v = c[kk]
            if v is TRANSP or isinstance(v, UBox): return c, kk
            if isinstance(v, (Ref, SliceRef)) and len(p) > 3 and p[3].startswith(('std::ptr::Unique<', 'std::ptr::NonNull<', 'Unique<', 'NonNull<', '*const ', '*mut ')): return c, kk      # Box/NonNull internals: transparent
            if isinstance(v, Slots): return v.coro.slots, p[2]
            if isinstance(v, Coro): return v.up, p[2]
            if isinstance(v, (Agg, Enum)): return v.f, p[2]
            if isinstance(v, (Vec, Str)) and p[2] == 0: return c, kk
            raise EngineError(f'field .{p[2]} of {v!r}')
        if k == 'index':
            c, kk = self._place(fr, p[1]); base = c[kk]; idx = p[2]
            if isinstance(base, SliceRef): lst, off, n = base.l, base.lo, len(base)
            elif isinstance(base, Agg): lst, off, n = base.f, 0, len(base.f)
            elif isinstance(base, Vec): lst, off, n = base.l, 0, len(base.l)
            else: raise EngineError(f'index into {base!r}')
            m = re.fullmatch(r'(-?\d+) of (\d+)', idx)
            if m: return lst, off + int(m.group(1))
            m = re.fullmatch(r'_(\d+)', idx)
            if m:
                i = fr[int(m.group(1))]
                if not isinstance(i, int): raise EngineError('symbolic index')
                if i >= n: raise Panic('index out of bounds')
                return lst, off + i
            m = re.fullmatch(r'(\d+):(-?\d*)', idx)          # subslice [a:] / [a:-b]
            if m:
                a = int(m.group(1)); b = m.group(2)
                hi = off + n + int(b) if b else off + n
                return [SliceRef(lst, off + a, hi)], 0
            raise EngineError('index expr ' + idx)
        raise EngineError('place kind')

    def _deref_val(self, r):
        if isinstance(r, Ref): return r.c, r.k
        raise EngineError(f'deref val {r!r}')

    def read(self, fr, s):
        c, k = self.place(fr, s)
        try: return c[k]
        except KeyError: raise EngineError(f'read of uninitialised {s}')

    # ---------------- operands / rvalues
    def const(self, fr, s):
        s = s.strip()
        m = re.fullmatch(r'(-?\d+)_([ui])(\d+|size)', s)
        if m: return int(m.group(1))
        if s in ('true', 'false'): return s == 'true'
        if s.startswith('ZeroSized: '):
            z = Agg([], s[len('ZeroSized: '):]); z.env = self.env_stack[-1]; return z
        if s == '()': return UNIT
        m = re.fullmatch(r'(.*)::promoted\[(\d+)\]', s)
        if m:
            base = MirIndex.simple(re.sub(r'::<[^:]*>$', '', m.group(1)))
            cands = [f for f in self.ix.fns if f.name.endswith(f'promoted[{m.group(2)}]') and MirIndex.simple(f.name.rsplit('::promoted', 1)[0]) == base]
            cur = self.call_stack[-1].name if self.call_stack else ''
            best = [f for f in cands if f.name.rsplit('::promoted', 1)[0] == cur] or cands
            if not best: raise EngineError('promoted not found ' + s)
            return self.call_mir(best[0], [])
        if s.startswith('"'): return Ref([Str(s[1:-1].encode('utf-8').decode('unicode_escape').encode('latin-1'))], 0)
        if s.startswith('b"'): return Ref([Str(eval(s))], 0)
        m = re.fullmatch(r"'(.)'", s)
        if m: return ord(m.group(1))
        if s in ('std::path::MAIN_SEPARATOR', 'path::MAIN_SEPARATOR'): return ord('/')          # unix model of std::path (models4.register_path)
        m = re.fullmatch(r'(?:core::num::<impl )?([ui])(\d+|size)>?::BITS', s)
        if m: return 64 if m.group(2) == 'size' else int(m.group(2))
        m = re.fullmatch(r'(?:core::num::<impl )?([ui])(\d+|size)>?::(MAX|MIN)', s)
        if m:
            bits = 64 if m.group(2) == 'size' else int(m.group(2))
            if m.group(1) == 'u': return (1 << bits) - 1 if m.group(3) == 'MAX' else 0
            return (1 << (bits - 1)) - 1 if m.group(3) == 'MAX' else -(1 << (bits - 1))
        if re.fullmatch(r'[A-Z][A-Z0-9_]*', s) and s in self.env_stack[-1] and re.fullmatch(r'-?\d+', str(self.env_stack[-1][s])): return int(self.env_stack[-1][s])      # const generic parameter
        if self.const_overrides:
            for k_, v_ in self.const_overrides.items():
                if s.endswith('::' + k_) or s == k_: return v_
        if s.startswith(('tracing::', 'LevelFilter::')): return Agg([], 'tracing')
        if s.startswith('{alloc'):
            mm = re.match(r'\{alloc(\d+): &', s)
            crate = self.call_stack[-1].crate if self.call_stack else None
            name = self.ix.alloc_static.get((crate, int(mm.group(1)))) if mm else None
            if name and 'LazyLock<' in s:
                if name not in self._statics:
                    segs = name.split('::'); simple = segs[-1]
                    cands = [f for f in self.ix.by_simple.get(simple, []) if f.header.startswith('static ') and f.crate == crate and f.name.endswith('::' + '::'.join(segs[-2:]))]
                    if len(cands) > 1 and len(segs) >= 3:
                        c2 = [f for f in cands if (self.ix.impl_info(f.name) or (None, None))[1] == segs[-3]]
                        cands = c2 or cands
                    if len(cands) != 1: raise EngineError(f'static {name} not found uniquely')
                    self._statics[name] = [self.call_mir(cands[0], [])]
                return Ref(self._statics[name], 0)
            return Ref([Agg([], 'static:' + s)], 0)             # reference to a static we never look into            # tracing is modelled as disabled
        segs = split_path(strip_lifetimes(s))
        if len(segs) >= 2 and re.fullmatch(r'\w+', segs[-1]) and self._is_enum(last_seg(segs[-2])) and segs[-1] in self.enum_variants(last_seg(segs[-2])):
            return Enum(segs[-1], ty=last_seg(segs[-2]))
        m = re.fullmatch(r'(?:[\w:<>]+::)?(\w+)::(\w+)', s)
        if m and m.group(2).isupper() and m.group(2) in self.ix.simple_consts:
            v = self.ix.simple_consts[m.group(2)]
            return self.const(fr, v[6:] if v.startswith('const ') else v)
        if m and m.group(2).isupper():
            cands = [f for f in self.ix.by_simple.get(m.group(2), []) if f.header.startswith('const ')]
            c2 = [f for f in cands if (self.ix.impl_info(f.name) or (None, None))[1] == m.group(1)] or cands
            if len(c2) == 1: return self.call_mir(c2[0], [])
            raise EngineError(f'assoc const {s}: {[f.name for f in cands]}')
        if m: return Enum(m.group(2), ty=m.group(1))
        if re.fullmatch(r'[\w:]+', s) and last_seg(s)[:1].isupper(): return Agg([], type_key(s))
        raise EngineError('const ' + s)

    def operand(self, fr, s):
        s = s.strip()
        if s.startswith('copy '):
            v = self.read(fr, s[5:]); return self.copy_val(v)
        if s.startswith('move '): return self.read(fr, s[5:])
        if s.startswith('const '): return self.const(fr, s[6:])
        if s.startswith('no_retag '): return self.operand(fr, s[9:])
        if re.match(r'[\w:<]', s): return FnItem(s)
        raise EngineError('operand ' + s)

    def copy_val(self, v):
        if isinstance(v, Agg):
            a = Agg([self.copy_val(x) for x in v.f], v.ty); a.env = v.env; return a
        if isinstance(v, Enum): return Enum(v.v, [self.copy_val(x) for x in v.f], v.ty)
        return v

    BIN = {'Eq': lambda a, b: a == b, 'Ne': lambda a, b: a != b, 'Lt': lambda a, b: a < b, 'Le': lambda a, b: a <= b,
           'Gt': lambda a, b: a > b, 'Ge': lambda a, b: a >= b, 'Add': lambda a, b: a + b, 'Sub': lambda a, b: a - b,
           'Mul': lambda a, b: a * b, 'BitAnd': lambda a, b: a & b, 'BitOr': lambda a, b: a | b, 'BitXor': lambda a, b: a ^ b,
           'Shl': lambda a, b: a << b, 'Shr': lambda a, b: a >> b}

    def rvalue(self, fr, s, fn):
        s = s.strip()
        m = re.match(r'(copy|move|const|no_retag) ', s)
        if m:
            mm = re.fullmatch(r'(.*) as (.*) \((\w+)(?:\(.*\))?\)', s)
            if mm and not s.startswith('const "'):
                v = self.operand(fr, mm.group(1)); return self.cast(v, mm.group(2), mm.group(3), self.ty_of(fn, mm.group(1)))
            return self.operand(fr, s)
        mfp = re.fullmatch(r'(.*) as (?:for<[^>]*> )?(?:unsafe )?(?:extern "[^"]*" )?fn\(.*\)(?: -> .*)? \(PointerCoercion\((?:ReifyFnPointer|ClosureFnPointer)[^)]*\)(?:, \w+)?\)\)', s)
        if mfp and not s.startswith(('copy ', 'move ')): return FnItem(mfp.group(1))
        if s.startswith('&mut '): return self.mkref(*self.place(fr, s[5:]))
        if s.startswith('&raw '):
            rest = s.split(' ', 2)[2]
            if rest.startswith('(fake) '): rest = rest[7:]
            return self.mkref(*self.place(fr, rest))
        if s.startswith('&'): return self.mkref(*self.place(fr, s[1:]))
        m = re.fullmatch(r'(\w+)\((.*)\)', s)
        if m:
            op, inner = m.group(1), m.group(2)
            if op in self.BIN or op in ('Rem', 'Div'):
                parts = split_top(inner); a, b = [self.operand(fr, x) for x in parts]
                if isinstance(a, Enum): a = self.discr(a)
                if isinstance(b, Enum): b = self.discr(b)
                if z3.is_bv(a) or z3.is_bv(b):
                    signed = (self.ty_of(fn, parts[0]) or self.ty_of(fn, parts[1]) or 'usize').startswith('i')
                    if op in ('Lt', 'Le', 'Gt', 'Ge'):
                        f = {('Lt', False): z3.ULT, ('Le', False): z3.ULE, ('Gt', False): z3.UGT, ('Ge', False): z3.UGE}.get((op, signed))
                        return f(a, b) if f else self.BIN[op](a, b)
                    if op == 'Shr' and not signed: return z3.LShR(a, b)
                    if op == 'Div': return a / b if signed else z3.UDiv(a, b)
                    if op == 'Rem': return z3.SRem(a, b) if signed else z3.URem(a, b)
                    return self.BIN[op](a, b)
                if op in ('Rem', 'Div'):
                    if isinstance(a, int) and isinstance(b, int): return a % b if op == 'Rem' else a // b
                    raise EngineError('symbolic div/rem')
                return self.BIN[op](a, b)
            if op in ('AddWithOverflow', 'SubWithOverflow', 'MulWithOverflow'):
                parts = split_top(inner); a, b = [self.operand(fr, x) for x in parts]
                o = op[:3]
                if z3.is_bv(a) or z3.is_bv(b):
                    signed = (self.ty_of(fn, parts[0]) or self.ty_of(fn, parts[1]) or 'usize').startswith('i')
                    w = (a if z3.is_bv(a) else b).size()
                    A = a if z3.is_bv(a) else z3.BitVecVal(a, w); B = b if z3.is_bv(b) else z3.BitVecVal(b, w)
                    if o == 'Add': r = A + B; ovf = z3.Not(z3.And(z3.BVAddNoOverflow(A, B, signed), z3.BVAddNoUnderflow(A, B) if signed else True))
                    elif o == 'Sub': r = A - B; ovf = z3.Not(z3.And(z3.BVSubNoUnderflow(A, B, signed), z3.BVSubNoOverflow(A, B) if signed else True))
                    else: r = A * B; ovf = z3.Not(z3.And(z3.BVMulNoOverflow(A, B, signed), z3.BVMulNoUnderflow(A, B) if signed else True))
                    return Agg([r, z3.simplify(ovf)], 'tup')
                r = self.BIN[o](a, b)
                ty = self.ty_of(fn, parts[0]) or self.ty_of(fn, parts[1]) or 'usize'
                bits = 64 if ty.endswith('size') else int(re.sub(r'\D', '', ty) or 64)
                lo, hi = (-(1 << (bits - 1)), (1 << (bits - 1)) - 1) if ty.startswith('i') else (0, (1 << bits) - 1)
                return Agg([r, not (lo <= r <= hi)], 'tup')
            if op == 'Not':
                a = self.operand(fr, inner)
                if isinstance(a, bool): return not a
                if z3.is_expr(a): return z3.Not(a) if z3.is_bool(a) else ~a
                ty = self.ty_of(fn, inner) or 'usize'                    # bitwise complement of a machine integer: width-aware
                if ty.startswith('i'): return ~a
                bits = 64 if ty.endswith('size') else int(re.sub(r'\D', '', ty) or 64)
                return (~a) & ((1 << bits) - 1)
            if op == 'Neg': return -self.operand(fr, inner)
            if op == 'PtrMetadata':
                a = self.operand(fr, inner)
                a = deref(a)
                if isinstance(a, Vec): return len(a.l)
                if isinstance(a, Agg): return len(a.f)
                return len(a)
            if op == 'discriminant':
                v = self.read(fr, inner); return v
        if s.startswith('[') and s.endswith(']'):
            parts = split_top(s[1:-1])
            if len(parts) == 1 and '; ' in parts[0]:
                a, n = parts[0].rsplit('; ', 1); v = self.operand(fr, a)
                return Agg([self.copy_val(v) for _ in range(int(re.match(r'\d+', n.replace('const ', '')).group(0)))], 'arr')
            return Agg([self.operand(fr, x) for x in parts], 'arr')
        if s.startswith('(') and s.endswith(')'):
            return Agg([self.operand(fr, x) for x in split_top(s[1:-1])], 'tup')
        # coroutine / closure / struct aggregate
        m = re.fullmatch(r'(\{coroutine@[^}]*\}|\{(?:async )?closure@[^}]*\}|[^{]+?) \{ (.*) \}', s)
        if not m and s.endswith(' }') and not s.startswith('{') and '{closure@' in s:
            # struct aggregate whose generic arguments mention closure types: `Type::<.., {closure@..}> { fields }`
            d = 0; j = len(s) - 1
            while j >= 0:
                if s[j] == '}': d += 1
                elif s[j] == '{':
                    d -= 1
                    if d == 0: break
                j -= 1
            if j > 0 and s[j - 1] == ' ': m = re.fullmatch(r'(.*)', s[:j - 1]); m = type('M', (), {'group': (lambda self, i, _h=s[:j - 1], _b=s[j + 2:-2]: _h if i == 1 else _b)})()
        if m:
            head = m.group(1); fields = [self.operand(fr, x.split(': ', 1)[1]) for x in split_top(m.group(2))]
            if head.startswith('{coroutine@'):
                co = Coro(self._coro_key(fn, head), fields, head); co.env = self.env_stack[-1]; return co
            if head.startswith('{'):
                cl = Agg(fields, head); cl.env = self.env_stack[-1]; return cl
            path = strip_lifetimes(head)
            segs = [x for x in split_path(path)]
            # Enum::Variant { .. } vs Struct { .. }
            if len(segs) >= 2 and self._is_enum(last_seg(segs[-2])) and segs[-1][0].isupper():
                return Enum(re.sub(r'<.*', '', segs[-1]), fields, last_seg(segs[-2]))
            return Agg(fields, type_key(path))
        m = re.fullmatch(r'(\{coroutine@[^}]*\}|\{(?:async )?closure@[^}]*\})', s)
        if m:
            if s.startswith('{coroutine@'):
                co = Coro(self._coro_key(fn, s), [], s); co.env = self.env_stack[-1]; return co
            cl = Agg([], s); cl.env = self.env_stack[-1]; return cl
        # tuple-like constructor: Path::Variant(args) or Struct(args)
        m = None
        if s.endswith(')'):
            d = 0
            for i in range(len(s) - 1, -1, -1):
                if s[i] == ')': d += 1
                elif s[i] == '(':
                    d -= 1
                    if d == 0: break
            if i > 0 and (s[i - 1].isalnum() or s[i - 1] in '_>'): m = (s[:i], s[i + 1:-1])
        if m:
            path = strip_lifetimes(m[0]); segs = split_path(path)
            fields = [self.operand(fr, x) for x in split_top(m[1])]
            if len(segs) >= 2 and self._is_enum(last_seg(segs[-2])):
                return Enum(re.sub(r'<.*', '', segs[-1]), fields, last_seg(segs[-2]))
            return Agg(fields, type_key(path))
        # unit variant / unit struct
        path = strip_lifetimes(s); segs = split_path(path)
        if len(segs) >= 2 and self._is_enum(last_seg(segs[-2])):
            return Enum(re.sub(r'<.*', '', segs[-1]), [], last_seg(segs[-2]))
        if len(segs) == 1 and re.fullmatch(r'[A-Z]\w*', s):
            # bare variant of a std enum in the prelude-like printing of rustc (`_1 = AlreadyExists;`): unique owner among the std enums
            owners = [k for k, vs in STD_ENUMS.items() if s in vs]
            if len(owners) == 1 and s not in ('None',): return Enum(s, [], owners[0])
            if s == 'None': return NONE()
        if re.fullmatch(r'[\w:<>, &\[\];]+', s): return Agg([], type_key(path))
        raise EngineError('rvalue ' + s)

    def _coro_key(self, fn, head):
        """key of the pre-transform coroutine body for a `{coroutine@span (#n)}` aggregate: the async fn's return type, or the
        `{async block@span}` / `{async closure body@span}` type for async blocks (async_trait methods)"""
        ret = strip_lifetimes(fn.ret)
        if ret in self.ix.coro: return ret
        m = re.match(r'\{coroutine@([^ }]+(?: [\d:]+)?)', head)
        if m:
            span = m.group(1)
            for k in self.ix.coro:
                if k.startswith('{async') and span in k: return k
        return ret

    def ty_of(self, fn, opnd):
        s = opnd.strip()
        m = re.match(r'const -?\d+_([ui](?:\d+|size))$', s)
        if m: return m.group(1)
        s = re.sub(r'^(copy|move|no_retag) ', '', s).strip(); s = re.sub(r'^(copy|move) ', '', s)
        m = re.fullmatch(r'_(\d+)', s)
        if m: return fn.types.get(int(m.group(1)))
        if s.startswith('(') and s.endswith(')') and ': ' in s:
            d = 0
            for i in range(len(s) - 1, 0, -1):
                if s[i] in ')]>': d += 1
                elif s[i] in '([<': d -= 1
                elif d == 1 and s[i:i + 2] == ': ': return s[i + 2:-1]
        return None

    def _is_enum(self, ty):
        if not getattr(self, '_enums_loaded', False): self._load_enums()
        return ty in self._enum_cache

    def _balanced(self, s):
        d = 0
        for c in s:
            if c in '([{': d += 1
            elif c in ')]}': d -= 1
            if d < 0: return False
        return d == 0

    INTW = {'u8': 8, 'u16': 16, 'u32': 32, 'u64': 64, 'usize': 64, 'i8': 8, 'i16': 16, 'i32': 32, 'i64': 64, 'isize': 64, 'u128': 128, 'i128': 128, 'char': 32, 'bool': 8}
    def cast(self, v, ty, kind, src_ty=None):
        if kind == 'IntToInt' and ty in self.INTW:
            bits = self.INTW[ty]
            if isinstance(v, bool): return int(v)
            if isinstance(v, Enum): v = self.discr(v)
            if isinstance(v, int):
                v &= (1 << bits) - 1
                if ty.startswith('i') and v >= 1 << (bits - 1): v -= 1 << bits
                return v
            if z3.is_bool(v): return z3.If(v, z3.BitVecVal(1, bits), z3.BitVecVal(0, bits))
            if z3.is_bv(v):
                sw = v.size()
                if bits == sw: return v
                if bits < sw: return z3.Extract(bits - 1, 0, v)
                return z3.SignExt(bits - sw, v) if (src_ty or '').startswith('i') else z3.ZeroExt(bits - sw, v)
        if kind == 'PointerCoercion':
            if isinstance(v, Ref):
                t = v.get()
                if isinstance(t, Agg) and t.ty == 'arr' and ty.lstrip('&mut ').startswith('['): return SliceRef(t.f)
            return v
        if kind in ('Transmute', 'PtrToPtr', 'IntToInt', 'Subtype'):
            if kind == 'IntToInt' and isinstance(v, bool): return int(v)
            if kind == 'IntToInt' and isinstance(v, Enum): return self.discr(v)
            return v
        raise EngineError(f'cast {kind} to {ty}')

    def mkref(self, c, k):
        try: v = c[k]
        except (KeyError, IndexError): return Ref(c, k)
        if isinstance(v, SliceRef) and isinstance(c, list) and len(c) == 1: return v
        return Ref(c, k)

    # ---------------- execution
    def _targs(self, c):
        segs = split_path(c) if not c.startswith('<') else split_path(c[c.rfind('>::') + 3:]) if '>::' in c else []
        if not segs: return []
        m = re.search(r'::<(.*)>$', segs[-1])
        if not m: return []
        cur = self.env_stack[-1]
        out = []
        for t in split_top(m.group(1)):
            out.append(self._subst(t.strip(), cur))
        return out

    def _generic_names(self, fn):
        name = MirIndex.simple(fn.name)
        if name in self._gen_cache: return self._gen_cache[name]
        import os
        res = []
        for d in self.enum_src_dirs:
            for root, _, files in os.walk(os.path.join(self.ix.repo, d)):
                for f in files:
                    if not f.endswith('.rs'): continue
                    txt = open(os.path.join(root, f)).read()
                    m = re.search(r'\bfn\s+' + re.escape(name) + r'\s*<([^(]*?)>\s*\(', txt)
                    if m:
                        res = [re.sub(r'^const\s+', '', p.strip().split(':')[0].strip()) for p in split_top(m.group(1)) if not p.strip().startswith("'")]
                        break
                if res: break
            if res: break
        self._gen_cache[name] = res
        return res

    def _self_targs(self, c):
        """actual type arguments of the Self type in a callee string: `<Ty<A, B> as Trait>::m` or `Ty::<A, B>::m`"""
        if c.startswith('<'):
            m = re.match(r'<(.*) as ([^>]*(?:<.*>)?)>::(\w+)(?:::<.*>)?$', c)
            x = m.group(1) if m else None
            if x is None:
                m = re.match(r'<(.*)>::(\w+)(?:::<.*>)?$', c); x = m.group(1) if m else None
            if x is None: return []
            x = x.lstrip('&').replace('mut ', '', 1) if x.startswith('&') else x
            mm = re.search(r'<(.*)>$', x.strip())
            ts = split_top(mm.group(1)) if mm else []
        else:
            segs = split_path(c)
            if len(segs) < 2: return []
            mm = re.search(r'::<(.*)>$', segs[-2])
            ts = split_top(mm.group(1)) if mm else []
        cur = self.env_stack[-1]
        return [self._subst(t.strip(), cur) for t in ts]

    def _subst(self, t, env):
        if not env: return t
        return re.sub(r'\b(' + '|'.join(re.escape(k) for k in env) + r')\b', lambda m: env[m.group(1)], t)

    def call_mir(self, fn, args, targs=None, self_targs=None, env0=None):
        if fn.blocks is None: fn = self.ix.body(fn)
        if len(self.call_stack) > 200: raise EngineError('call depth')
        env = dict(env0) if env0 else {}
        if self_targs:
            names = self.ix.impl_generic_names(fn.name)
            if names and len(names) == len(self_targs):
                env = {n: t for n, t in zip(names, self_targs) if n != t}
        if targs:
            names = self._generic_names(fn)
            if len(names) == len(targs): env.update(zip(names, targs))
        self.call_stack.append(fn); self.env_stack.append(env)
        try: return self._run(fn, args)
        except EngineError as ex:
            if not hasattr(ex, 'stack'): ex.stack = [f.name for f in self.call_stack]
            raise
        finally: self.call_stack.pop(); self.env_stack.pop()

    def _run(self, fn, args):
        fr = {i + 1: a for i, a in enumerate(args)}
        bb = 0; blocks = fn.blocks
        zst = getattr(fn, '_zst_closures', None) if hasattr(fn, '__dict__') else None
        for i, ty in fn.types.items():                   # zero-sized closures are never assigned in MIR (`_5 = &mut _6` with _6 untouched)
            if i > len(args) and isinstance(ty, str) and ty.startswith(('{closure@', '{async closure@')):
                cl = Agg([], ty); cl.env = self.env_stack[-1]; fr[i] = cl
        if fn.name not in self.touched: self.touched[fn.name] = fn
        while True:
            block = blocks[bb]
            for sti, st in enumerate(block[:-1]):
                self.stats['steps'] += 1
                if st.startswith(('StorageLive', 'StorageDead', 'nop', 'FakeRead', 'PlaceMention', 'Retag', 'Coverage', 'AscribeUserType', 'ConstEvalCounter')): continue
                m = re.match(r'discriminant\((.*)\) = (\d+)$', st)
                if m:
                    v = self.read(fr, m.group(1))
                    if isinstance(v, Coro): v.state = int(m.group(2)); continue
                    raise EngineError('SetDiscriminant on ' + repr(v))
                if st[0] == '(':
                    j = self._match_close(st, 0)
                    while st[j + 1] == '[': j = self._match_close(st, j + 1)
                    lhs, rhs = st[:j + 1], st[j + 4:]
                else: lhs, rhs = st.split(' = ', 1)
                try:
                    if 'closure@' in rhs and rhs.startswith('{') and rhs.endswith(' }'): rhs = self._fix_closure_agg(block, sti, rhs)
                    v = self.rvalue(fr, rhs, fn)
                    if rhs.startswith('discriminant(') and isinstance(v, Enum) and lhs[0] == '_' and lhs[1:].isdigit() and fn.types.get(int(lhs[1:]), 'isize') != 'isize':
                        v = self.discr(v)              # `self as u8` of a fieldless enum with explicit discriminants
                    c, k = self.place(fr, lhs); c[k] = v
                except EngineError as ex:
                    if not getattr(ex, 'ctx', None): ex.ctx = f'{fn.name} :: {st}'; ex.args = (ex.args[0] + '  @ ' + ex.ctx,)
                    raise
            t = block[-1]; self.stats['steps'] += 1
            if t == 'return': return fr.get(0, UNIT)
            if t == 'unreachable': raise EngineError('reached unreachable in ' + fn.name)
            if t.startswith('goto -> bb'): bb = int(t[10:]); continue
            m = re.fullmatch(r'switchInt\((.*)\) -> \[(.*)\]', t)
            if m:
                v = self.operand(fr, m.group(1)); tg = None
                if isinstance(v, (Enum, Coro)): v = self.discr(v)
                for arm in m.group(2).split(', '):
                    val, dest = arm.split(': bb')
                    if val == 'otherwise': tg = int(dest); break
                    if isinstance(v, (bool, int)):
                        iv = int(v); jv = int(val)
                        if iv == jv or (iv < 0 and jv in (iv + 256, iv + 65536, iv + (1 << 32), iv + (1 << 64), iv + (1 << 128))): tg = int(dest); break      # negative discriminants are printed as unsigned bit patterns
                    else:
                        cond = (v if int(val) else z3.Not(v)) if z3.is_bool(v) else (v == int(val))
                        if self.branch(cond): tg = int(dest); break
                self.cov.add((fn.name, bb, tg)); bb = tg; continue
            m = re.fullmatch(r'assert\((!?)(.*?), ".*?"(?:, .*)?\) -> \[success: bb(\d+), unwind.*\]', t)
            if m:
                c = self.operand(fr, m.group(2))
                if m.group(1): c = (not c) if isinstance(c, bool) else z3.Not(c)
                if not self.branch(c): raise Panic('assert failed: ' + t[:90])
                bb = int(m.group(3)); continue
            m = re.fullmatch(r'drop\((.*)\) -> \[return: bb(\d+).*\]', t)
            if m: bb = int(m.group(2)); continue
            if t == 'resume' or t.startswith('terminate'): raise EngineError('unwind path executed')
            if ' = yield(' in t: raise EngineError('suspension point reached (a modelled future returned Pending) in ' + fn.name)
            m = re.fullmatch(r'(.*)\) -> (?:\[return: bb(\d+).*\]|unwind.*|bb\d+)', t)
            if m:
                head, ret = m.groups(); depth = 1; i = len(head)
                while depth:
                    i -= 1
                    if head[i] == ')': depth += 1
                    elif head[i] == '(': depth -= 1
                argstr = head[i + 1:]; head = head[:i]
                if head[0] == '(':
                    j = self._match_close(head, 0)
                    while head[j + 1] == '[': j = self._match_close(head, j + 1)
                    lhs, callee = head[:j + 1], head[j + 4:]
                else:
                    mm = re.match(r'(_\d+) = (.*)$', head)
                    lhs, callee = (mm.group(1), mm.group(2)) if mm else (None, head)
                args = [self.operand(fr, a) for a in split_top(argstr)]
                r = self.call(callee, args)
                if ret is None: raise EngineError('diverging call returned: ' + callee)
                if lhs: c, k = self.place(fr, lhs); c[k] = r
                bb = int(ret); continue
            raise EngineError('terminator ' + t)

    # ---------------- call resolution
    def call(self, callee, args):
        self.stats['calls'] += 1
        if self.trace: print('  ' * len(self.call_stack) + 'CALL', callee[:150])
        c = strip_lifetimes(callee)
        c = re.sub(r"::<('_(, )?)+>", '', c)
        c = re.sub(r' as (?:\w+::)+(\w+)', r' as \1', c)
        for rx, f in self.overrides:
            if rx.search(c): return f(self, c, args)
        if self.env_stack[-1]: c = self._subst(c, self.env_stack[-1])
        if not c.startswith('<'):
            segs = split_path(c)
            if len(segs) >= 2 and self._is_enum(last_seg(segs[-2])) and re.sub(r'::<.*', '', segs[-1]) in self.enum_variants(last_seg(segs[-2])):
                return Enum(re.sub(r'::<.*', '', segs[-1]), list(args), last_seg(segs[-2]))
        fn = self.resolve(c, args)
        if fn is not None: return self.call_mir(fn, args, self._targs(c), self._self_targs(c) if '<impl at' in fn.name else None)
        for rx, f in self.models:
            if rx.search(c): return f(self, c, args)
        raise EngineError('no model for ' + c)

    def resolve(self, c, args):
        key = c
        if key in self._res_cache: return self._res_cache[key]
        r = self._resolve(c, args)
        # runtime-dispatched (generic param) results are not cached
        if not re.match(r'<([A-Z]\w{0,2}|Self|impl .*?|dyn .*?|Box<dyn .*?) as ', c): self._res_cache[key] = r
        return r

    def _resolve(self, c, args):
        m = re.match(r'<(.*) as ([^>]*(?:<.*>)?)>::(\w+)(?:::<.*>)?$', c)
        if m:
            x, trait, meth = m.group(1), last_seg(m.group(2)), m.group(3)
            if x.startswith('&'):
                refp = '&mut ' if x.startswith('&mut ') else '&'
                cands = []
                for f in self.ix.by_simple.get(meth, []):
                    if '<impl at' not in f.name or not f.args or len(f.args) != len(args): continue
                    a0 = strip_lifetimes(f.args[0])
                    if not a0.startswith(refp) or (refp == '&' and a0.startswith('&mut ')): continue
                    info = self.ix.impl_info(f.name)
                    if info and info[0] == trait and type_key(a0) == type_key(x) and not re.fullmatch(r'[A-Z]\w{0,2}', type_key(x)) and self.ix.impl_self_is_ref(f.name): cands.append(f)
                return cands[0] if len(cands) == 1 else None
            if x.startswith(('dyn ', 'Box<dyn ')) and args:          # dynamic dispatch: on the runtime type of the receiver
                v = deref(args[0])
                while isinstance(v, Agg) and v.ty in ('Box', 'Pin') and v.f: v = deref(v.f[0])
                ty = getattr(v, 'ty', None)
                if ty is None or not isinstance(v, (Agg, Enum)): return None
                f = self._find_impl(meth, trait, ty, len(args))
                if f is not None:
                    r0 = args[0]
                    while isinstance(r0, Ref) and isinstance(r0.get(), Ref): r0 = r0.get()
                    args[0] = r0 if isinstance(r0, Ref) else Ref([v], 0)
                else:
                    # provided (default) method of a crate trait called on a trait object: the body is generic in Self
                    d = [g for g in self.ix.by_simple.get(meth, []) if (g.name == trait + '::' + meth or g.name.endswith('::' + trait + '::' + meth)) and '<impl at' not in g.name and len(g.args) == len(args)]
                    if len(d) == 1: return d[0]
                return f
            if x.startswith(('{', 'Pin<')): return None
            xs = type_key(x)
            if re.fullmatch(r'[A-Z]\w{0,2}', xs) and xs in self.env_stack[-1] and not re.fullmatch(r'[A-Z]\w{0,2}', type_key(self.env_stack[-1][xs])):
                return self._find_impl(meth, trait, type_key(self.env_stack[-1][xs]), len(args))
            if (re.fullmatch(r'[A-Z]\w{0,2}|Self', xs) or xs.startswith('impl ')) and args:           # generic param / `impl Trait` argument: dispatch on runtime type
                v = deref(args[0]); xs = getattr(v, 'ty', None)
                if xs is None: return None
                if isinstance(args[0], Ref) and isinstance(args[0].get(), Ref):              # &&T receiver (blanket `impl Trait for &T`): same method on T
                    r0 = args[0]
                    while isinstance(r0.get(), Ref): r0 = r0.get()
                    args[0] = r0
            targ = re.search(r'<(.*)>$', m.group(2).strip())
            is_std = xs.startswith(('std::', 'core::', 'alloc::')) or xs in ('str', 'String', 'usize', 'u8', 'u32', 'u64', 'i32', 'i64', 'bool', 'char') or xs.startswith('[')
            if is_std and not targ: return None                                  # std type, trait without type argument: std's own impl (a model)
            f = self._find_impl(meth, trait, xs, len(args), split_top(targ.group(1))[0] if targ else None)
            if f is None and not is_std:
                # provided (default) method of a crate trait: printed as `module::Trait::method`
                d = [g for g in self.ix.by_simple.get(meth, []) if (g.name == trait + '::' + meth or g.name.endswith('::' + trait + '::' + meth)) and '<impl at' not in g.name and len(g.args) == len(args)]
                if len(d) == 1: return d[0]
            if f is not None and targ and len(f.args) >= 2 and is_std:
                if type_key(f.args[1]) != type_key(split_top(targ.group(1))[0]): return None
            return f
        segs = split_path(c) if not c.startswith('<') else []
        if len(segs) >= 2:
            meth = re.sub(r'::<.*', '', segs[-1]); ty = '::'.join(re.sub(r'::<.*', '', x) for x in segs[:-1])
            if last_seg(ty)[:1].isupper():
                f = self._find_impl(meth, None, ty, len(args))
                if f is not None: return f
        # free function: the printed (trimmed) path must agree with the candidate's printed name
        if not segs: return None
        name = re.sub(r'::<.*', '', segs[-1]); cpath = '::'.join(re.sub(r'::<.*', '', x) for x in segs)
        cands = [f for f in self.ix.by_simple.get(name, []) if '<impl at' not in f.name and '{' not in f.name and len(f.args) == len(args) and f.header.startswith('fn ')
                 and (f.name == cpath or f.name.endswith('::' + cpath) or cpath.endswith('::' + f.name))]
        if not cands and len(segs) >= 3:
            # function nested in a method: `Type::<..>::method::inner` is printed by rustc as `<impl at ..>::method::inner`
            tail = '::'.join(re.sub(r'::<.*', '', x) for x in segs[-2:])
            cands = [f for f in self.ix.by_simple.get(name, []) if f.name.endswith('>::' + tail) and '{' not in f.name and len(f.args) == len(args) and f.header.startswith('fn ')]
        if len(cands) == 1: return cands[0]
        if len(cands) > 1:
            c2 = [f for f in cands if f.name == cpath]
            if len(c2) == 1: return c2[0]
            if len({self.ix.body_hash(f) for f in cands}) == 1: return cands[0]          # same-named tuple-struct constructors etc.: identical bodies
            raise EngineError(f'ambiguous free fn {c}: {[f.name for f in cands]}')
        return None

    def _alias_target(self, file, name):
        """last path segment of the right-hand side of `type name<..> = Target<..>;` in `file` (None if `name` is not a type alias there)"""
        key = ('alias', file, name)
        if key not in self._pcache:
            r = None
            try:
                m = re.search(r'\btype ' + re.escape(name) + r'\b[^=;{]*=\s*([\w:]+)', '\n'.join(self.ix.src(file)))
                if m: r = m.group(1).split('::')[-1]
            except Exception: r = None
            self._pcache[key] = r
        return self._pcache[key]

    def _find_impl(self, meth, trait, ty, nargs, arg0=None):
        """ty is a printed type key (possibly module-qualified when the bare name is ambiguous crate-wide)"""
        key = (meth, trait, ty, nargs, arg0)
        if key in self._res_cache: return self._res_cache[key]
        bare = last_seg(ty); mod = ty[:-len(bare)].rstrip(':') if '::' in ty else None
        out = []
        for f in self.ix.by_simple.get(meth, []):
            if '<impl at' not in f.name or f.name.endswith('}') or len(f.args) != nargs: continue
            if not f.name.endswith('::' + meth): continue
            info = self.ix.impl_info(f.name)
            if info is None: continue
            tr, sty = info
            if (tr or None) != trait: continue
            selfkey = type_key(f.args[0]) if f.args else None
            known = sty is not None and not sty.startswith('$') and sty not in ('name', 'Self')
            if known:
                if sty != bare and not (selfkey is not None and last_seg(selfkey) == bare and self._alias_target(f.file, sty) == bare): continue   # impl block of another type (e.g. `Source::new(text: BString)`); `impl Alias<..>` of a type alias is accepted
                out.append((2 if selfkey == ty else (1 if (mod is None or f.name.startswith(mod + '::<impl')) else 0), f)); continue
            if selfkey == ty or type_key(f.ret) == ty: out.append((1, f))        # macro-generated impl: Self type unknown, go by receiver / return type
        if out:
            best = max(p for p, _ in out); out = [f for p, f in out if p == best]
            if len(out) > 1 and mod is None:
                o2 = [f for f in out if not f.name.startswith('protos::')]
                out = o2 or out
        r = None
        if len(out) == 1: r = out[0]
        elif len(out) > 1:
            if all(x.header == out[0].header for x in out): r = out[0]
            else:
                o2 = [f for f in out if arg0 is not None and f.args and strip_lifetimes(f.args[0]).replace(' ', '') == strip_lifetimes(arg0).replace(' ', '')] if arg0 else []
                if not o2 and arg0: o2 = [f for f in out if f.args and type_key(f.args[0]) == type_key(arg0) and strip_lifetimes(f.args[0]).startswith('&') == strip_lifetimes(arg0).startswith('&')]
                if len(o2) == 1: r = o2[0]
                else: raise EngineError(f'ambiguous impl {ty}::{meth}: {[f.name for f in out]}')
        self._res_cache[key] = r
        return r

    def _fix_closure_agg(self, block, sti, rhs):
        """rustc's MIR pretty-printer zips the upvar operands of a closure aggregate with the names of the captured VARIABLES; with
        disjoint field captures (edition 2021) there are more upvars than variables and the trailing operands are not printed.
        The missing operands are the temporaries assigned immediately before the aggregate (in capture order): recover them, and
        fail loudly if the shape is not exactly that."""
        m = re.fullmatch(r'(\{(?:async )?closure@[^}]*\}) \{ (.*) \}', rhs)
        if not m: return rhs
        key = ('closure_upvars', m.group(1))
        need = self._pcache.get(key)
        if need is None:
            c = self.ix.closure_by_span.get(m.group(1).replace('{async closure@', '{closure@'))
            need = 0
            if c:
                cf = c[0] if c[0].blocks is not None else self.ix.body(c[0])
                for b in cf.blocks.values():
                    for st in b:
                        for k in re.findall(r'\(\(?\*?_1\)?\.(\d+): ', st): need = max(need, int(k) + 1)
            self._pcache[key] = need
        ops = split_top(m.group(2))
        if need <= len(ops): return rhs
        given = []
        for o in ops:
            mm = re.fullmatch(r'\w+: (?:move|copy) _(\d+)', o.strip())
            if not mm: raise EngineError('closure aggregate with unprinted upvars has a non-local operand: ' + rhs)
            given.append(int(mm.group(1)))
        temps = []
        for st in reversed(block[:sti]):
            mm = re.match(r'_(\d+) = ', st)
            if not mm: break
            temps.insert(0, int(mm.group(1)))
        if not given or given[0] not in temps: raise EngineError('cannot recover unprinted closure upvars: ' + rhs)
        i = temps.index(given[0]); cand = temps[i:i + need]
        if len(cand) != need or cand[:len(given)] != given: raise EngineError('cannot recover unprinted closure upvars: ' + rhs)
        self.notes.add('closure aggregate with upvars elided by the MIR pretty-printer recovered from the preceding temporaries')
        return m.group(1) + ' { ' + ', '.join(f'up{j}: move _{t}' for j, t in enumerate(cand)) + ' }'

    def closure_fn(self, clo):
        span = clo.ty.replace('{async closure@', '{closure@')
        c = self.ix.closure_by_span.get(span)
        if not c: raise EngineError('closure body not found ' + str(span))
        return c[0]

    def closure_call(self, clo, args):
        clo_v = deref(clo)
        if isinstance(clo_v, Agg) and clo_v.ty and 'closure@' in clo_v.ty:
            fn = self.closure_fn(clo_v)
            env = (clo if isinstance(clo, Ref) else Ref([clo_v], 0)) if fn.byref else clo_v
            while isinstance(env, Ref) and isinstance(env.get(), Ref): env = env.get()          # &mut Box<dyn FnMut> etc.: the closure environment is the innermost reference
            return self.call_mir(fn, [env] + list(args), env0=clo_v.env)
        if isinstance(clo_v, FnItem): return self.call(clo_v.name, list(args))
        if callable(clo_v): return clo_v(*args)
        raise EngineError(f'closure_call on {clo_v!r}')

    def poll(self, fut):
        """drive a future to completion (no real suspension points are modelled)"""
        f = deref(fut)
        while isinstance(f, Agg) and f.ty == 'Pin': f = deref(f.f[0])
        if isinstance(f, StubFuture): return f.value
        if isinstance(f, Coro):
            fn = self.ix.coro.get(f.pollfn)
            if fn is None: raise EngineError('coroutine body not found: ' + f.pollfn)
            if f.state != 0: raise EngineError('coroutine polled twice')
            f.state = 1
            return self.call_mir(fn, [f, Ref(['cx'], 0)], env0=f.env)
        raise EngineError(f'poll on {f!r}')

class Str:
    """immutable byte string (str / [u8] contents); elements are ints or z3 BitVec(8)"""
    __slots__ = ('b',)
    def __init__(self, b): self.b = list(b)
    def __len__(self): return len(self.b)
    def __repr__(self):
        if all(isinstance(x, int) for x in self.b): return 'str' + repr(bytes(self.b))
        return f'str[{", ".join(str(x) if isinstance(x, int) else x.sexpr() for x in self.b)}]'
StrLit = Str

def split_path(p):
    out, d, cur = [], 0, []
    i = 0
    while i < len(p):
        c = p[i]
        if c in '<([': d += 1; cur.append(c)
        elif c in ')]': d -= 1; cur.append(c)
        elif c == '>' and (i == 0 or p[i - 1] != '-'): d -= 1; cur.append(c)
        elif c == ':' and d == 0 and p[i:i + 2] == '::': out.append(''.join(cur)); cur = []; i += 1
        else: cur.append(c)
        i += 1
    out.append(''.join(cur))
    res = []
    for x in out:
        if not x: continue
        if x.startswith('<') and res and not x.startswith('<impl at'): res[-1] += '::' + x
        else: res.append(x)
    return res

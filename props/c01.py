"""C01  Conflict simplification and flattening preserve meaning  (lib/src/merge.rs)

Symbolic: the term values (mathematical integers used only through ==/clone: any value domain with equality).
Real code executed from MIR: Merge::get_simplified_mapping (+ closure), apply_simplified_mapping, simplify,
update_from_simplified, Merge<Merge<T>>::flatten.
"""
import itertools, z3
from mirsym.harness import *

ID = 'C01'
CRATES = ['jj-lib']
NATIVE = 'c01'
BOUNDS = {
    'quick': 'simplify/update_from_simplified: every conflict of arity 1,3,5,7 (all equality patterns of the terms, values unbounded); '
             'flatten: every nesting shape with outer arity<=5, inner arities in {1,3,5}, total<=9 terms (values unbounded)',
    'thorough': 'simplify/update_from_simplified: arity 1..11; flatten: outer arity<=7, inner arities in {1,3,5}, total<=13 terms',
}
ASSUMPTIONS = [
    'T is any type whose PartialEq is an equivalence relation and whose Clone preserves equality (values are solver integers compared only by ==)',
    'std/itertools/smallvec callees (Vec::drain/swap, slice::rotate_left/swap, iter enumerate/skip/step_by/find/map/collect) are native models, validated per path against the compiled code',
    'nested-to-any-depth flattening is covered as repeated application of the one-level flatten step on arbitrary inner conflicts',
]
BUDGET = {'quick': 900, 'thorough': 1500}
F = 'lib/src/merge.rs'

def jobs(tier):
    out = []
    arities = [1, 3, 5, 7] if tier == 'quick' else [1, 3, 5, 7, 9, 11]
    for n in arities:
        out.append(dict(name=f'simplify-arity{n}', kind='simplify', n=n, rung=0 if n <= 5 else n, weight=n ** 3))
        out.append(dict(name=f'update-arity{n}', kind='update', n=n, rung=0 if n <= 5 else n, weight=n ** 3))
    max_total, outer_max = (9, 5) if tier == 'quick' else (13, 7)
    for outer in range(1, outer_max + 1, 2):
        for inner in itertools.product((1, 3, 5), repeat=outer):
            if sum(inner) <= max_total:
                out.append(dict(name='flatten-' + '_'.join(map(str, inner)), kind='flatten', inner=list(inner), rung=0, weight=1))
    return out

def run_job(ix, job, tier):
    return {'simplify': job_simplify, 'update': job_update, 'flatten': job_flatten}[job['kind']](ix, job)

def job_simplify(ix, job):
    n = job['n']; vals = [z3.Int(f'v{i}') for i in range(n)]; probe = z3.Int('probe')
    simp = ix.find_method(F, 'Merge', 'simplify'); mapping_fn = ix.find_method(F, 'Merge', 'get_simplified_mapping')
    def run(e):
        m = mk_merge(vals)
        mp = e.call_mir(mapping_fn, [Ref([m], 0)])
        s = e.call_mir(simp, [Ref([m], 0)])
        s2 = e.call_mir(simp, [Ref([s], 0)])
        return list(mp.l), list(merge_vals(s)), list(merge_vals(s2))
    def obligations(kind, out, pc, e):
        mp, s, s2 = out
        yield 'simplify preserves signed multiplicity of every value', den(vals, probe) == den(s, probe)
        yield 'simplified conflict has no value that is both a side and a base', z3.Not(zor([s[i] == s[j] for i in range(0, len(s), 2) for j in range(1, len(s), 2)]))
        yield 'simplify is idempotent', zand([len(s) == len(s2)] + [a == b for a, b in zip(s, s2)])
        yield 'simplified arity is odd and not larger', (len(s) % 2 == 1 and len(s) <= n)
        yield 'mapping is injective, in range, parity preserving and consistent with simplify', (
            len(mp) == len(s) and len(set(mp)) == len(mp) and all(isinstance(k, int) and 0 <= k < n and k % 2 == j % 2 for j, k in enumerate(mp))
            and all(s[j] is vals[k] or z3.eq(s[j], vals[k]) for j, k in enumerate(mp)))
    def witness(m, kind, out):
        inp = dict(op='simplify', vals=[mval(m, v) for v in vals])
        return dict(input=inp, expect=None if kind != 'ok' else dict(simplified=[mval(m, x) for x in out[1]]))
    return explore_job(ix, job['name'], run, obligations, witness=witness, deadline=job.get('deadline'))

def job_update(ix, job):
    n = job['n']; vals = [z3.Int(f'v{i}') for i in range(n)]; edits = [z3.Int(f'e{i}') for i in range(n)]; probe = z3.Int('probe')
    mapping_fn = ix.find_method(F, 'Merge', 'get_simplified_mapping'); upd = ix.find_method(F, 'Merge', 'update_from_simplified')
    simp = ix.find_method(F, 'Merge', 'simplify')
    def run(e):
        m = mk_merge(vals)
        mp = list(e.call_mir(mapping_fn, [Ref([m], 0)]).l)
        s = list(merge_vals(e.call_mir(simp, [Ref([m], 0)])))
        ed = edits[:len(mp)]
        r = e.call_mir(upd, [mk_merge(vals), mk_merge(ed)])
        return mp, ed, list(merge_vals(r)), s
    def obligations(kind, out, pc, e):
        mp, ed, r, s = out
        yield 'written-back conflict keeps the original arity', len(r) == n
        yield 'written-back conflict denotes the edited simplified conflict', den(r, probe) == den(ed, probe)
        yield 'edit lands exactly on the surviving positions', zand([r[k] == ed[j] for j, k in enumerate(mp)] + [r[k] == vals[k] for k in range(n) if k not in mp])
        yield 'writing back an unedited simplified conflict is the identity', z3.Implies(zand([a == b for a, b in zip(ed, s)]), zand([a == b for a, b in zip(r, vals)]))
    def witness(m, kind, out):
        inp = dict(op='update', vals=[mval(m, v) for v in vals], edits=[mval(m, v) for v in (out[1] if kind == 'ok' else [])])
        return dict(input=inp, expect=None if kind != 'ok' else dict(result=[mval(m, x) for x in out[2]]))
    return explore_job(ix, job['name'], run, obligations, witness=witness, deadline=job.get('deadline'))

def job_flatten(ix, job):
    inner = job['inner']; probe = z3.Int('probe')
    flat = ix.find_method(F, 'Merge', 'flatten')
    vals = [[z3.Int(f'v{k}_{i}') for i in range(a)] for k, a in enumerate(inner)]
    def run(e):
        M = mk_merge([mk_merge(list(v)) for v in vals])
        return list(merge_vals(e.call_mir(flat, [M])))
    def obligations(kind, out, pc, e):
        yield 'flatten arity is the sum of the inner arities', len(out) == sum(inner)
        yield 'flatten preserves signed multiplicity (outer signs applied)', den(out, probe) == z3.Sum([(1 if k % 2 == 0 else -1) * den(v, probe) for k, v in enumerate(vals)])
    def witness(m, kind, out):
        inp = dict(op='flatten', nested=[[mval(m, x) for x in v] for v in vals])
        return dict(input=inp, expect=None if kind != 'ok' else dict(flat=[mval(m, x) for x in out]))
    return explore_job(ix, job['name'], run, obligations, witness=witness, deadline=job.get('deadline'), expected_paths=1)

def compare_native(case, native):
    exp = case.get('expect')
    if exp is None: return ('panic' in native), 'interpreter path panicked but native run did not'
    if 'panic' in native: return False, f'native panic {native["panic"]}'
    key = next(iter(exp))
    return (native.get('out') == exp[key]), f'native {native.get("out")} != symbolic {exp[key]}'

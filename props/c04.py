"""C04  File content merge obeys the merge identity laws  (lib/src/files.rs on top of core/src/diff.rs; MIR of jj-lib + jj-core)

Real code from MIR: files::merge / try_merge / merge_hunks -> merge_inner -> ContentDiff::by_line (whole diff pipeline, see C03) ->
resolve_diff_hunks -> trivial_merge -> MergeHunk / collect_* / merge_hunk_by_word.
Symbolic: the bytes of every term (line structure from a stated menu), hash seed / hash function / table iteration order.
"""
import itertools, re, z3
from mirsym.harness import *
from mirsym.engine import NONE, SOME, It

ID = 'C04'
CRATES = ['jj-lib', 'jj-core']
NATIVE = 'c04'
BOUNDS = {
    'quick': 'line level, same-change Keep and Accept: 3-way merges with 1 line per term (with/without final newline, empty side), (2,1,1)/(1,2,1)/(1,1,2)/(2,1,2) lines, and 5-way merges of 1-line terms; one symbolic non-LF byte per line',
    'thorough': '3-way up to 2 lines per term in every shape; 5-way 1..2 lines; 7-way 1 line per term',
}
ASSUMPTIONS = [
    'terms are line-structured as stated by the job shape; line contents are free non-LF bytes (1 per line)',
    'hash values are an uninterpreted function of (seed, bytes) with collisions allowed; table iteration orders nondeterministic',
    'the oracle is the cancellation rule of C02 applied to whole term contents: if the terms cancel to one content (or, with same-change accepted, all remaining sides agree) the merge must be resolved to exactly that content; otherwise the result is resolved or has the arity of the input; in every case each output term must be assembled from input bytes in order (checked as: every hunk chosen is one of the input slices)',
]
BUDGET = {'quick': 900, 'thorough': 3600}
F = 'lib/src/files.rs'

def jobs(tier):
    out = []
    def add(shape, level, sc, rung, w):
        out.append(dict(name='merge-' + '_'.join(''.join(f'{n}{"n" if nl else "x"}' for n, nl in t) or 'e' for t in shape) + f'-{level}-{sc}', shape=shape, level=level, sc=sc, rung=rung, weight=w,
                        split=('enumerate', 8) if (sum(len(t) for t in shape) >= 5 or level == 'Word') else None))
    L = (1, True); X = (1, False)
    three = [[[L], [L], [L]], [[X], [L], [L]], [[L], [X], [X]], [[], [L], [L]], [[L, L], [L], [L]], [[L], [L, L], [L]], [[L], [L], [L, L]], [[L, L], [L], [L, L]]]
    for sh in three:
        for sc in ('Accept', 'Keep'):
            add(sh, 'Line', sc, 0 if sum(len(t) for t in sh) <= 3 else 1, 6 ** sum(len(t) for t in sh))
    add([[L]] * 5, 'Line', 'Accept', 1, 6 ** 5); add([[L]] * 5, 'Line', 'Keep', 1, 6 ** 5)
    add([[L], [L], [L]], 'Word', 'Accept', 2, 6 ** 4)
    add([[L, L], [L, L], [L, L]], 'Line', 'Accept', 3, 6 ** 6)
    if tier == 'quick': return [j for j in out if j['rung'] <= 1]
    if tier == 'thorough':
        add([[L], [L], [L]], 'Word', 'Keep', 4, 6 ** 4); add([[X], [L], [L]], 'Word', 'Accept', 4, 6 ** 4)
        add([[L, L], [L, L], [L, L]], 'Line', 'Keep', 5, 6 ** 6)
        add([[L, L], [L], [L], [L], [L, L]], 'Line', 'Accept', 6, 6 ** 7); add([[L]] * 7, 'Line', 'Accept', 6, 6 ** 7)
    return out

def beq(x, y):
    if len(x) != len(y): return z3.BoolVal(False)
    cs = []
    for a, b in zip(x, y):
        if isinstance(a, int) and isinstance(b, int):
            if a != b: return z3.BoolVal(False)
        else: cs.append(a == b)
    return zand(cs)

def run_job(ix, job, tier):
    shape, level, sc = job['shape'], job['level'], job['sc']
    merge_fn = ix.find('merge', file=F, frag='files::merge') if False else ix.find('merge', file=F)
    inputs = []
    for i, lines in enumerate(shape):
        bs = []
        for j, (n, nl) in enumerate(lines):
            bs += [byte(f'b{i}_{j}_{k}') for k in range(n)]
            if nl: bs.append(10)
        inputs.append(bs)
    syms = [b for bs in inputs for b in bs if not isinstance(b, int)]
    pre = zand([b != 10 for b in syms])
    n = len(inputs)
    num_diffs = n // 2
    order = [2 * d + 1 for d in range(num_diffs)] + [2 * d for d in range(n - num_diffs)]        # diff input index -> merge term index
    by_line = ix.find_method('core/src/diff.rs', 'ContentDiff', 'by_line'); hunk_ranges = ix.find_method('core/src/diff.rs', 'ContentDiff', 'hunk_ranges')
    it_next = ix.find_method('core/src/diff.rs', 'DiffHunkRangeIterator', 'next', trait='Iterator')
    def run(e):
        m = mk_merge([Ref([Str(list(bs))], 0) for bs in inputs])
        opts = mk_struct(ix, 'lib/src/tree_merge.rs', 'MergeOptions', hunk_level=Enum(level, ty='FileMergeHunkLevel'), same_change=Enum(sc, ty='SameChange'))
        out = e.call_mir(merge_fn, [Ref([m], 0), Ref([opts], 0)], targs=['&str'])
        out = [list(e.bl(t)[0][e.bl(t)[1]:e.bl(t)[2]]) for t in merge_vals(out)]
        # the line diff the merge is defined over (same inputs, same order), for the oracle
        d = e.call_mir(by_line, [It('list', l=[Ref([Str(list(inputs[t]))], 0) for t in order], pos=0)], targs=['[u8]'])
        it = e.call_mir(hunk_ranges, [Ref([d], 0)]); hunks = []
        while True:
            h = e.call_mir(it_next, [Ref([it], 0)])
            if h.v == 'None': break
            rs = [(r.f[0], r.f[1]) for r in h.f[0].f[1].l]
            if not all(isinstance(x, int) for r in rs for x in r): raise EngineError('symbolic hunk range')
            hunks.append((h.f[0].f[0].v, rs))
        return out, hunks
    def rule(slices):
        """cancellation rule on one hunk: list of (term index or None, condition)"""
        def cnt(i): return z3.Sum([z3.If(beq(slices[j], slices[i]), 1 if j % 2 == 0 else -1, 0) for j in range(n)])
        def single(i): return z3.And(cnt(i) == 1, *[z3.Or(beq(slices[j], slices[i]), cnt(j) == 0) for j in range(n)])
        def same(i): return z3.And(cnt(i) > 0, *[z3.Or(beq(slices[j], slices[i]), cnt(j) <= 0) for j in range(n)],
                                   *[z3.Or(cnt(j) >= 0, cnt(k) >= 0, beq(slices[j], slices[k])) for j in range(n) for k in range(j + 1, n)])
        J = (lambda i: z3.Or(single(i), same(i))) if sc == 'Accept' else single
        js = [J(i) for i in range(n)]
        return [(None, z3.Not(zor(js)))] + [(i, js[i]) for i in range(0, n, 2)]           # only sides can be the resolution
    def obligations(kind, res, pc, e):
        out, hunks = res
        yield 'result is resolved or has the arity of the input', len(out) in (1, n)
        res_is = lambda x: beq(out[0], x) if len(out) == 1 else z3.BoolVal(False)
        whole = rule(inputs)
        yield 'terms that cancel to one content merge to exactly that content', zand([z3.Implies(c, res_is(inputs[i])) for i, c in whole if i is not None])
        # hunk-wise expected result from the line diff and the cancellation rule
        per_hunk = []
        for k, rs in hunks:
            sl = [None] * n
            for dix, (a, b) in enumerate(rs): sl[order[dix]] = inputs[order[dix]][a:b]
            per_hunk.append([(0, z3.BoolVal(True))] if k == 'Matching' else rule(sl)); per_hunk[-1] = (sl, per_hunk[-1])
        alts = []
        for choice in itertools.product(*[c for _, c in per_hunk]):
            conds = [c for _, c in choice]
            if all(r is not None for r, _ in choice): exp = [sum([sl[r] for (sl, _), (r, _) in zip(per_hunk, choice)], [])]
            else: exp = [sum([(sl[r] if r is not None else sl[t]) for (sl, _), (r, _) in zip(per_hunk, choice)], []) for t in range(n)]
            same_out = zand([beq(a, b) for a, b in zip(out, exp)]) if len(out) == len(exp) else z3.BoolVal(False)
            alts.append((zand(conds), same_out, len(exp) == 1))
        if level == 'Line':
            yield 'every hunk is taken from an input according to the cancellation rule, in input order', zor([z3.And(c, s) for c, s, _ in alts])
        else:
            yield 'word-level merge agrees with the line-level rule whenever that resolves every hunk', zand([z3.Implies(c, s) for c, s, full in alts if full])
    def witness(m, k, out):
        inp = dict(terms=[[mval(m, b) for b in bs] for bs in inputs], level=level, same_change=sc)
        return dict(input=inp, expect=None if k != 'ok' else [[mval(m, b) for b in t] for t in out[0]])
    def hook(e): e.max_orders = 6
    return explore_job(ix, job['name'], run, obligations, pre=pre, witness=witness, deadline=job.get('deadline'), split=job.get('split'), engine_hook=hook)

def compare_native(case, native):
    if case.get('expect') is None: return ('panic' in native), 'interpreter path panicked but native run did not'
    if 'panic' in native: return False, f'native panic {native["panic"]}'
    return native.get('out') == case['expect'], f'native {native.get("out")} != symbolic {case["expect"]}'

"""check driver: regenerate MIR from /repo, run a property's jobs on all cores, confirm counterexamples natively,
write evidence, exit 0 / 1 (VIOLATION) / 2 (inconclusive)."""
import os, sys, json, time, argparse, importlib, hashlib, traceback, subprocess, glob, multiprocessing as mp

VERIF = os.path.dirname(os.path.dirname(os.path.abspath(__file__)))
sys.path.insert(0, VERIF)
from mirsym import front
from mirsym.mir import MirIndex, AnchorError
from mirsym.harness import JobResult

_IX = None; _MOD = None; _TIER = None

def build_index(crates, debug_assertions=False):
    ix = MirIndex(front.REPO); infos = []
    for c in crates:
        mir, coro, info = front.ensure_dump(c, debug_assertions=debug_assertions)
        ix.add(mir, crate=c); n = ix.load_coroutines(coro, crate=c); info['bodies'] = len(ix.fns); infos.append(info)
    return ix, infos

def _run_job(job):
    t0 = time.time()
    try:
        r = _MOD.run_job(_IX, job, _TIER)
    except AnchorError as ex:
        r = JobResult(job.get('name', '?')); r.inconclusive.append(f'anchor: {ex}')
    except Exception as ex:
        r = JobResult(job.get('name', '?')); r.inconclusive.append(f'harness exception: {type(ex).__name__}: {ex}\n{traceback.format_exc()[-1500:]}')
    r.rung = job.get('rung', 0); r.wall_s = time.time() - t0
    return r

def mirsym_hash():
    h = hashlib.sha256()
    for f in sorted(glob.glob(os.path.join(VERIF, 'mirsym', '*.py')) + glob.glob(os.path.join(VERIF, 'props', '*.py'))):
        h.update(open(f, 'rb').read())
    return h.hexdigest()[:16]

def load_known():
    p = os.path.join(VERIF, 'known_findings.json')
    if not os.path.exists(p): return []
    return json.load(open(p)).get('findings', [])

def native_run(prop, cases, timeout=600):
    """run the native replay runner on a list of cases; returns list of dicts (or None if the runner is unavailable)"""
    from mirsym import native
    return native.run(prop, cases, timeout=timeout)

def main(argv=None):
    global _IX, _MOD, _TIER
    ap = argparse.ArgumentParser()
    ap.add_argument('prop'); ap.add_argument('--tier', default=os.environ.get('VERIF_TIER', 'quick'), choices=['quick', 'thorough'])
    ap.add_argument('--replay'); ap.add_argument('--jobs', type=int, default=int(os.environ.get('VERIF_JOBS', '0')) or min(16, os.cpu_count() or 4))
    ap.add_argument('--only'); ap.add_argument('--no-native', action='store_true'); ap.add_argument('--budget', type=float)
    a = ap.parse_args(argv)
    pid = a.prop.upper(); seed = int(os.environ.get('VERIF_SEED', '0') or 0)
    mod = importlib.import_module('props.' + pid.lower()); _MOD = mod; _TIER = a.tier
    t0 = time.time()
    if a.replay: return replay_file(mod, pid, a.replay)
    budget = a.budget or getattr(mod, 'BUDGET', {}).get(a.tier, 240 if a.tier == 'quick' else 1800)
    try:
        ix, infos = build_index(mod.CRATES, debug_assertions=getattr(mod, 'DEBUG_ASSERTIONS', False))
    except Exception as ex:
        print(f'INCONCLUSIVE property={pid}: MIR generation failed: {ex}'); write_evidence(pid, a.tier, seed, mod, [], [], time.time() - t0, error=str(ex)); return 2
    _IX = ix
    import gc
    gc.collect(); gc.freeze()          # the index is shared copy-on-write with the worker processes: keep the collector from touching it
    t_ix = time.time() - t0
    jobs = mod.jobs(a.tier)
    if a.only: jobs = [j for j in jobs if a.only in j['name']]
    import random
    rnd = random.Random(seed)
    rungs = sorted(set(j.get('rung', 0) for j in jobs))
    results = []; completed = []; skipped = []
    deadline = time.time() + budget
    ctx = mp.get_context('fork')
    for rung in rungs:
        rj = [j for j in jobs if j.get('rung', 0) == rung]
        rnd.shuffle(rj); rj.sort(key=lambda j: -j.get('weight', 1))
        if time.time() > deadline and completed: skipped.append(rung); continue
        rung_deadline = deadline if completed else deadline + budget       # the first rung gets twice the budget before we give up
        for j in rj: j['deadline'] = rung_deadline
        with ctx.Pool(min(a.jobs, max(1, len(rj)))) as pool:
            rr = list(pool.imap_unordered(_run_job, rj))
        if os.environ.get('VERIF_TIMING'): print(f'[timing] rung {rung} wave 1: {len(rj)} jobs, t={time.time() - t0:.0f}s', file=sys.stderr)
        # second wave: big jobs were only enumerated down to a decision depth; explore every cut prefix as its own job
        sub = []
        for r in rr:
            for k, p in enumerate(getattr(r, 'cuts', []) or []):
                j0 = next(j for j in rj if j['name'] == r.name)
                sub.append(dict(j0, name=f"{r.name}#p{k}", split=('prefix', p), weight=1))
        if sub:
            rnd.shuffle(sub)
            with ctx.Pool(min(a.jobs, len(sub))) as pool:
                rr += list(pool.imap_unordered(_run_job, sub, chunksize=max(1, len(sub) // (a.jobs * 8))))
        if os.environ.get('VERIF_TIMING'): print(f'[timing] rung {rung} wave 2: {len(sub)} jobs, t={time.time() - t0:.0f}s', file=sys.stderr)
        results.extend(rr)
        if any(r.violations for r in rr): completed.append(rung); break      # a counterexample was found: no need to go deeper
        if all(not r.inconclusive for r in rr): completed.append(rung)
        else:
            if any('truncated' in x for r in rr for x in r.inconclusive) and completed:
                skipped.append(rung); results = [r for r in results if r.rung != rung or r.violations]      # incomplete rung: not covered, not a failure
                for r in results:
                    if r.rung == rung: r.inconclusive = []
            break
    skipped += [r for r in rungs if r not in completed and r not in skipped and not any(x.rung == r for x in results)]
    # ---- native confirmation of counterexamples and witness replay
    viol = [v for r in results for v in r.violations]
    inconcl = [f'{r.name}: {x}' for r in results for x in r.inconclusive]
    validated = 0; native_note = None
    if not a.no_native and getattr(mod, 'NATIVE', None):
        wit = [w for r in results for w in r.witnesses]
        rnd.shuffle(wit); wit = wit[: (200 if a.tier == 'quick' else 1000)]
        cases = wit + [v.case for v in viol if getattr(v, 'case', None) is not None]
        try:
            outs = native_run(mod.NATIVE, [c['input'] for c in cases]) if cases else []
        except Exception as ex:
            outs = None; native_note = f'native runner unavailable: {ex}'
        if outs is not None:
            for c, o in zip(cases[:len(wit)], outs[:len(wit)]):
                ok, why = mod.compare_native(c, o)
                if ok and o.get('holds') is False and not viol and getattr(mod, 'NATIVE_CONFIRM', True):
                    ok, why = False, f'native oracle rejects a case on which every solver obligation held: {o.get("why")}'
                if ok: validated += 1
                else: inconcl.append(f'witness mismatch between interpreter and native code: {why} case={json.dumps(c)[:300]}')
            vi = [v for v in viol if getattr(v, 'case', None) is not None]
            for v, o in zip(vi, outs[len(wit):]):
                v.native = o; v.confirmed = (o.get('holds') is False) or ('panic' in o)
        elif viol: inconcl.append(native_note)
    kani_results = []
    if a.tier == 'thorough' and getattr(mod, 'KANI', None) and not a.only:
        from mirsym import kani_runner
        kani_results = kani_runner.run(mod.KANI)
        for kr in kani_results:
            if kr['verdict'] == 'failed':
                v = type('V', (), {})(); v.job = 'kani:' + kr['harness']; v.label = 'Kani harness ' + kr['harness']; v.detail = kr['tail'][-300:]; v.model = {}; v.key = v.label; v.case = None
                viol.append(v)
            elif kr['verdict'] != 'successful': inconcl.append(f"Kani harness {kr['harness']} inconclusive: {kr['tail'][-200:]}")
    known = load_known(); new_viol = []; known_hit = []
    for v in viol:
        k = next((f for f in known if f.get('property') == pid and f.get('key') and f['key'] in (v.key + ' ' + v.detail + ' ' + json.dumps(getattr(v, 'case', None)))), None)
        if k: known_hit.append((k, v)); continue
        if getattr(mod, 'NATIVE', None) and getattr(mod, 'NATIVE_CONFIRM', True) and not a.no_native and getattr(v, 'case', None) is not None and getattr(v, 'confirmed', None) is False:
            inconcl.append(f'counterexample did not reproduce natively ({v.label}); encoding or stub is wrong: {json.dumps(v.case)[:400]} native={json.dumps(getattr(v, "native", None))[:300]}'); continue
        new_viol.append(v)
    wall = time.time() - t0
    ev = write_evidence(pid, a.tier, seed, mod, results, infos, wall, completed=completed, skipped=skipped, validated=validated,
                        violations=new_viol, inconclusive=inconcl, index_s=t_ix, native_note=native_note, known=known_hit, kani=kani_results)
    for k, v in {f['key']: (f, v) for f, v in known_hit}.values():
        print(f"KNOWN-FINDING: property={pid} {k.get('what', k['key'])}")
    tot_paths = sum(r.paths for r in results); tot_ob = sum(r.obligations for r in results); tot_d = sum(r.discharged for r in results)
    print(f'[{pid}] tier={a.tier} rungs completed={completed} skipped={skipped} jobs={len(results)} paths={tot_paths} obligations={tot_d}/{tot_ob} '
          f'native-validated={validated} wall={wall:.1f}s')
    if new_viol:
        os.makedirs(os.path.join(VERIF, 'replays'), exist_ok=True)
        seen = set()
        for v in new_viol:
            if v.key in seen: continue
            seen.add(v.key)
            d = dict(property=pid, job=v.job, label=v.label, detail=v.detail, model=v.model, case=getattr(v, 'case', None), native=getattr(v, 'native', None),
                     confirmed_natively=getattr(v, 'confirmed', None))
            h = hashlib.sha256(json.dumps(d, sort_keys=True, default=str).encode()).hexdigest()[:10]
            path = os.path.join(VERIF, 'replays', f'{pid}-{h}.json'); json.dump(d, open(path, 'w'), indent=1, default=str)
            print(f'  violated: {v.label} in job {v.job}: {v.detail[:300]}')
            print(f'VIOLATION property={pid} replay={path}')
        return 1
    if inconcl or not completed:
        seen = set()
        for x in inconcl:
            k = x.split(':', 1)[-1][:60]
            if k in seen: continue
            seen.add(k); print(f'INCONCLUSIVE property={pid}: {x[:1200]}')
            if len(seen) >= 5: break
        if not completed and not inconcl: print(f'INCONCLUSIVE property={pid}: no rung completed within budget')
        return 2
    return 0

def _job_table(results):
    """one row per job; the decision-prefix sub-jobs (`name#pK`) of a split job are summed into their parent"""
    rows = {}
    for r in results:
        base = r.name.split('#p')[0]
        d = rows.setdefault(base, dict(name=base, rung=r.rung, paths=0, panics=0, steps=0, feasibility_queries=0, obligations=0, discharged=0, wall_s=0.0, partition_checked=True, sub_jobs=0))
        d['paths'] += r.paths; d['panics'] += r.panic_paths; d['steps'] += r.steps; d['feasibility_queries'] += r.queries; d['obligations'] += r.obligations
        d['discharged'] += r.discharged; d['wall_s'] = round(d['wall_s'] + r.wall_s, 2); d['sub_jobs'] += 1
        if r.partition_ok is not True: d['partition_checked'] = r.partition_ok if d['partition_checked'] is True else d['partition_checked']
    return list(rows.values())[:600]

def write_evidence(pid, tier, seed, mod, results, infos, wall, completed=(), skipped=(), validated=0, violations=(), inconclusive=(), index_s=0,
                   native_note=None, error=None, known=(), kani=()):
    touched = {}
    cov = set()
    for r in results:
        touched.update(r.touched); cov |= r.cov
    jj = {n: t for n, t in touched.items() if t[0] and not t[0].startswith('/')}
    samples = [s for r in results for s in r.samples][:6]
    if not samples: samples = [dict(note='no path completed')]
    bounds = getattr(mod, 'BOUNDS', {}).get(tier, '')
    coverage = dict(
        states=max(1, sum(r.paths for r in results)), transitions=max(1, sum(r.steps for r in results)),
        traces_validated_against_impl=validated, samples=samples,
        obligations=sum(r.obligations for r in results), discharged=sum(r.discharged for r in results),
        exhaustive=False,
        explanation='states = feasible execution paths of the real MIR explored symbolically (each path stands for all inputs satisfying its path condition); '
                    'transitions = MIR statements/terminators interpreted; obligations = solver queries of the form path-condition AND NOT property (must be unsat) '
                    'plus one partition query per job showing the explored path conditions cover the whole bounded input space',
        bounds=bounds, rungs_completed=list(completed), rungs_not_covered=list(skipped),
        jobs=_job_table(results),
        functions_encoded=[dict(name=n, file=t[0], line=t[1], mir_hash=t[2]) for n, t in sorted(jj.items())][:300],
        functions_encoded_count=len(jj),
        branch_edges_covered=len(cov),
        solver=dict(engine='z3 ' + __import__('z3').get_version_string(), feasibility_queries=sum(r.queries for r in results),
                    obligation_solver_s=round(sum(r.solver_s for r in results), 2)),
        mir=infos, index_load_s=round(index_s, 1), mirsym_code_hash=mirsym_hash(),
        inconclusive=list(inconclusive)[:20], native_note=native_note, known_findings_hit=[k['key'] for k, _ in known],
    )
    if kani: coverage['kani_harnesses'] = list(kani)
    if hasattr(mod, 'extra_evidence'):
        try: coverage.update(mod.extra_evidence(results, tier))
        except Exception as ex: coverage['extra_evidence_error'] = str(ex)
    if error: coverage['error'] = error
    ev = dict(property_id=pid, tier=tier, seed=seed, level='model_checking', coverage=coverage,
              assumptions=list(getattr(mod, 'ASSUMPTIONS', [])), wall_s=round(wall, 2), violations=len(violations))
    os.makedirs(os.path.join(VERIF, 'evidence'), exist_ok=True)
    json.dump(ev, open(os.path.join(VERIF, 'evidence', pid + '.json'), 'w'), indent=1, default=str)
    return ev

def replay_file(mod, pid, path):
    d = json.load(open(path))
    case = d.get('case')
    if not case or not getattr(mod, 'NATIVE', None):
        print(f'replay: no native case recorded in {path}; model = {json.dumps(d.get("model"))[:1000]}'); return 2
    outs = native_run(mod.NATIVE, [case['input']])
    print(json.dumps(outs[0], indent=1))
    if outs[0].get('holds') is False or 'panic' in outs[0]:
        print(f'VIOLATION property={pid} replay={path}'); return 1
    print('property holds natively on this input'); return 0

if __name__ == '__main__':
    from mirsym.bigframe import run_in_big_frame
    sys.exit(run_in_big_frame(main))          # see bigframe.py: avoids CPython 3.11 data-stack chunk thrash (mmap/munmap per call)

"""C02  Automatic conflict resolution is exactly the cancellation rule  (lib/src/merge.rs: trivial_merge, Merge::resolve_trivial)

Symbolic: term values (only ==/hash used), both SameChange settings; HashMap iteration order is nondeterministic
(the model forks over every permutation), hash values are irrelevant (the map model is an association list keyed by ==).
"""
import z3
from mirsym.harness import *

ID = 'C02'
CRATES = ['jj-lib']
NATIVE = 'c02'
BOUNDS = {
    'quick': 'every term list of arity 1,3,5,7 (all equality patterns, values unbounded), SameChange in {Keep, Accept}, every HashMap iteration order (identity and reverse only for maps with more than 3 entries at arity 7); arity 9 restricted to term lists with at least 4 equal (add, remove) pairs - the conflicts that can resolve at all - HashMap order identity or reverse',
    'thorough': 'arity 1..9, both SameChange settings, every HashMap iteration order',
}
ASSUMPTIONS = [
    'T: Eq + Hash with Eq an equivalence relation and Hash consistent with Eq (HashMap modelled as an association list keyed by ==)',
    'HashMap iteration order is arbitrary: all permutations of the remaining entries are explored (arity <= 5); for arity >= 7 all orders of maps with <= 3 entries, identity and reverse order of larger maps',
    '"sides that all agree" is read as the documented rule of the code: after cancellation exactly one distinct side value remains and at most one distinct base value (so [A,B,A,C,A] staying unresolved is not an alarm)',
]
BUDGET = {'quick': 900, 'thorough': 3000}
F = 'lib/src/merge.rs'

def jobs(tier):
    out = []
    for n in ([1, 3, 5, 7] if tier == 'quick' else [1, 3, 5, 7, 9]):
        for sc in ('Keep', 'Accept'):
            out.append(dict(name=f'arity{n}-{sc}', n=n, sc=sc, rung=0 if n <= 5 else n, weight=n ** 4, split=('enumerate', 8) if n >= 7 else None, max_orders=720 if n <= 5 else 6))
    if tier == 'quick':
        # arity 9 restricted to the inputs on which a resolution is possible at all: at least 4 (add, remove) pairs of equal terms, i.e. the conflicts that
        # (nearly) cancel; every equality pattern of arity 9 is in the thorough tier
        for sc in ('Keep', 'Accept'):
            out.append(dict(name=f'arity9-{sc}-cancelling', n=9, sc=sc, cancel=4, rung=9, weight=9 ** 3, split=('enumerate', 8), max_orders=2))
    return out

def spec(vals, sc):
    cnt = {i: den(vals, v) for i, v in enumerate(vals)}
    def single(i):
        return z3.And(cnt[i] == 1, *[z3.Or(x == vals[i], cnt[j] == 0) for j, x in enumerate(vals)])
    def same(i):
        return z3.And(cnt[i] > 0, *[z3.Or(x == vals[i], cnt[j] <= 0) for j, x in enumerate(vals)],
                      *[z3.Or(cnt[j] >= 0, cnt[k] >= 0, vals[j] == vals[k]) for j in range(len(vals)) for k in range(j + 1, len(vals))])
    return (lambda i: z3.Or(single(i), same(i))) if sc == 'Accept' else single

def run_job(ix, job, tier):
    n, sc = job['n'], job['sc']; vals = [z3.Int(f'v{i}') for i in range(n)]
    resolve = ix.find_method(F, 'Merge', 'resolve_trivial')
    sp = spec(vals, sc)
    holder = {}
    def run(e):
        m = mk_merge(list(vals)); holder['l'] = merge_vals(m)
        r = e.call_mir(resolve, [Ref([m], 0), Enum(sc, ty='SameChange')])
        if r.v == 'Some':
            ref = r.f[0]
            if not (isinstance(ref, Ref) and ref.c is holder['l']): raise EngineError('result does not point into the input terms')
            return ref.k
        return None
    def obligations(kind, out, pc, e):
        if out is not None:
            yield 'resolved value is justified by the cancellation rule', sp(out)
        else:
            yield 'unresolved only when no value is justified by the cancellation rule', z3.Not(z3.Or([sp(i) for i in range(n)]))
    def witness(m, kind, out):
        return dict(input=dict(vals=[mval(m, v) for v in vals], same_change=sc),
                    expect=None if kind != 'ok' else dict(r=None if out is None else mval(m, vals[out])))
    def hook(e): e.max_orders = job.get('max_orders', 720)
    pre = None
    if job.get('cancel') is not None:
        pairs = [(vals[i] == vals[j], 1) for i in range(0, n, 2) for j in range(1, n, 2)]
        pre = z3.PbGe(pairs, job['cancel'])
    return explore_job(ix, job['name'], run, obligations, witness=witness, deadline=job.get('deadline'), split=job.get('split'), engine_hook=hook, pre=pre)

def compare_native(case, native):
    exp = case.get('expect')
    if exp is None: return ('panic' in native), 'interpreter path panicked but native run did not'
    if 'panic' in native: return False, f'native panic {native["panic"]}'
    # with several admissible iteration orders the native run may pick another justified value; it must at least agree on Some/None
    return ((native.get('out') is None) == (exp['r'] is None)) and native.get('holds', False), f'native {native} vs symbolic {exp}'

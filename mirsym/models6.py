"""std model family 6: BinaryHeap (max-heap) as an unordered list that is ordered on demand.

The heap is a Vec(kind 'BinaryHeap'); every observation (peek/pop/peek_mut/into_sorted_vec) first moves a greatest element
(by the element type's Ord, decided through cmp3: crate impls from MIR, forks on symbolic comparisons) to the end of the list.
A PeekMut is a reference to that last slot; writing through it leaves the list unordered, which the next observation repairs -
the same observable behaviour as std's sift-down in PeekMut::drop.  Iteration order of BinaryHeap::iter / into_vec is
unspecified in std and is not modelled (engine error if used).
"""
import re
from .engine import Agg, Enum, Ref, Vec, It, deref, NONE, SOME, UNIT, EngineError

def register6(E):
    R = lambda rx: (lambda f: (E.models.insert(0, (re.compile(rx), f)), f)[1])
    BH = r'^(std::collections::)?(BinaryHeap|binary_heap::BinaryHeap)::<.*>::'
    PM = r'(std::collections::)?(binary_heap::)?PeekMut'
    def heap(x):
        h = deref(x)
        if not (isinstance(h, Vec) and h.ty == 'BinaryHeap'): raise EngineError(f'not a BinaryHeap: {h!r}')
        return h
    def max_to_end(e, h):
        l = h.l
        if len(l) < 2: return
        bi = 0
        for i in range(1, len(l)):
            if e.cmp3(l[i], l[bi]) == 'Greater': bi = i
        l.append(l.pop(bi))
    @R(BH + r'new$|^<(std::collections::)?BinaryHeap<.*> as Default>::default$|' + BH + r'with_capacity$')
    def _(e, c, a): return Vec([], 'BinaryHeap')
    @R(r'^<(std::collections::)?BinaryHeap<.*> as From<(std::vec::)?Vec<.*>>>::from$|^<(std::collections::)?BinaryHeap<.*> as From<\[.*\]>>::from$')
    def _(e, c, a): return Vec(list(deref(a[0]).l), 'BinaryHeap')
    @R(r'^<(std::collections::)?BinaryHeap<.*> as FromIterator<.*>>::from_iter::<')
    def _(e, c, a): return Vec(list(E.drain_iter(E.it_of(a[0]))), 'BinaryHeap')
    @R(BH + r'push$')
    def _(e, c, a): heap(a[0]).l.append(a[1]); return UNIT
    @R(BH + r'pop$')
    def _(e, c, a):
        h = heap(a[0]); max_to_end(e, h)
        return SOME(h.l.pop()) if h.l else NONE()
    @R(BH + r'peek$')
    def _(e, c, a):
        h = heap(a[0]); max_to_end(e, h)
        return SOME(Ref(h.l, len(h.l) - 1)) if h.l else NONE()
    @R(BH + r'peek_mut$')
    def _(e, c, a):
        h = heap(a[0]); max_to_end(e, h)
        return SOME(Agg([Ref([h], 0)], 'PeekMut')) if h.l else NONE()
    @R(r'^<' + PM + r'<.*> as (Deref|DerefMut)>::(deref|deref_mut)$')
    def _(e, c, a):
        h = heap(deref(a[0]).f[0]); return Ref(h.l, len(h.l) - 1)
    @R(r'^' + PM + r'::<.*>::pop$')
    def _(e, c, a):
        h = heap(a[0].f[0]); return h.l.pop()
    @R(BH + r'(len)$')
    def _(e, c, a): return len(heap(a[0]).l)
    @R(BH + r'(is_empty)$')
    def _(e, c, a): return len(heap(a[0]).l) == 0
    @R(BH + r'(clear)$')
    def _(e, c, a): heap(a[0]).l.clear(); return UNIT
    @R(BH + r'into_sorted_vec$')
    def _(e, c, a):
        h = heap(a[0]); out = []
        for x in h.l:
            i = len(out)
            while i > 0 and e.cmp3(out[i - 1], x) == 'Greater': i -= 1
            out.insert(i, x)
        return Vec(out, 'Vec')
    @R(BH + r'(iter|into_vec|drain)$|^<(std::collections::)?BinaryHeap<.*> as IntoIterator>::into_iter$')
    def _(e, c, a): raise EngineError('BinaryHeap iteration order is unspecified and not modelled')

    # ---------------------------------------------------------------- Itertools::try_collect::<T, U, E>  (= collect::<Result<U, E>>)
    from .mir import split_top
    prev_collect = E.collect_into
    def collect_into6(target, items):
        t = target.strip()
        if re.match(r'\s*<?(std::collections::)?BinaryHeap<', t): return Vec(list(items), 'BinaryHeap')
        return prev_collect(target, items)
    E.collect_into = collect_into6
    @R(r'as Itertools>::try_collect::<(.*)>$')
    def _(e, c, a):
        targs = split_top(re.search(r'as Itertools>::try_collect::<(.*)>$', c).group(1))
        inner = []
        for x in E.drain_iter(E.it_of(a[0])):
            if x.v == 'Err': return x
            inner.append(x.f[0])
        from .engine import OK
        return OK(E.collect_into(targs[1], inner))
    @R(r'as Iterator>::collect::<(.*)>$')
    def _(e, c, a):
        t = re.search(r'as Iterator>::collect::<(.*)>$', c).group(1)
        return E.collect_into(t, E.drain_iter(E.it_of(a[0])))
    @R(r'^(std::result::)?Result::<(std::option::)?Option<.*>::transpose$')
    def _(e, c, a):
        from .engine import OK
        r = a[0]
        if r.v == 'Err': return SOME(r)
        return NONE() if r.f[0].v == 'None' else SOME(OK(r.f[0].f[0]))
    @R(r'^(std::option::)?Option::<(std::result::)?Result<.*>::transpose$')
    def _(e, c, a):
        from .engine import OK
        o = a[0]
        if o.v == 'None': return OK(NONE())
        return o.f[0] if o.f[0].v == 'Err' else OK(SOME(o.f[0].f[0]))
    @R(r'^<(std::collections::)?HashMap<.*> as Index<.*>>::index$')
    def _(e, c, a):
        from .models3 import HMValRef
        hm = deref(a[0])
        for i, (k, v) in enumerate(hm.items):
            if e.branch(E.eq_val(k, a[1])): return HMValRef(hm, i)
        from .engine import Panic
        raise Panic('HashMap index: key not found')

"""Shared harness piece for C18/C19: a commit index whose graph is symbolic.

SymGraph(P, cuts, order): positions P (ascending ints), one solver boolean par[c, p] per pair p < c ("p is a parent of c"), generation
numbers and reachability as terms over them, and overrides for the CommitIndexSegment accessors of a stack of abstract segments
(cut points `cuts` index into P).  The accessors fork (through the solver) on the booleans they are asked about.
"""
import re, z3
from mirsym.harness import *
from mirsym.engine import NONE, SOME

class SymGraph:
    def __init__(self, P, cuts=(), order='asc'):
        self.P = P = list(P); self.order = order
        par = {(c, p): z3.Bool(f'par_{c}_{p}') for c in P for p in P if p < c}
        gen = {}
        for c in P:
            g = z3.BitVecVal(0, 32)
            for p in P:
                if p < c: g = z3.If(z3.And(par[c, p], z3.UGE(gen[p] + 1, g)), gen[p] + 1, g)
            gen[c] = g
        reach = {}
        for d in P:
            for a in P:
                if a > d: reach[d, a] = z3.BoolVal(False)
                elif a == d: reach[d, a] = z3.BoolVal(True)
        for d in P:
            for a in reversed([x for x in P if x < d]):
                reach[d, a] = zor([z3.And(par[d, p], reach[p, a]) for p in P if a <= p < d])
        self.par, self.gen, self.reach = par, gen, reach
        # segments: boundaries in global positions; segment k holds [lo_k, hi_k); the top (child-most) segment is the last
        bounds = [0] + [P[k] for k in cuts] + [max(P) + 1]
        nseg = len(bounds) - 1
        segs = [Agg([k], 'StubSegment') for k in range(nseg)]
        def seg_of(x):
            s = deref(x)
            while isinstance(s, Ref): s = deref(s)
            if not (isinstance(s, Agg) and s.ty == 'StubSegment'): raise EngineError(f'segment stub: unexpected receiver {s!r}')
            return s.f[0]
        def gpos(a):
            k = seg_of(a[0]); lp = deref(a[1]); lp = lp.f[0] if isinstance(lp, Agg) else lp
            if not isinstance(lp, int): raise EngineError('symbolic local position')
            g = bounds[k] + lp
            if not (bounds[k] <= g < bounds[k + 1]) or g not in P: raise Panic(f'segment {k}: local position {lp} out of range')
            return g
        def parent_positions(e, c, a):
            g = gpos(a); out = []
            for p in (P if order == 'asc' else reversed(P)):
                if p < g and e.branch(par[g, p]): out.append(Agg([p], 'GlobalCommitPosition'))
            return Vec(out, 'SmallVec')
        self.over = [(re.compile(r'as CommitIndexSegment>::num_parent_commits$'), lambda e, c, a: bounds[seg_of(a[0])]),
                     (re.compile(r'as CommitIndexSegment>::num_local_commits$'), lambda e, c, a: bounds[seg_of(a[0]) + 1] - bounds[seg_of(a[0])]),
                     (re.compile(r'as CommitIndexSegment>::parent_file$'), lambda e, c, a: (SOME(Ref([Ref([segs[seg_of(a[0]) - 1]], 0)], 0)) if seg_of(a[0]) > 0 else NONE())),
                     (re.compile(r'as CommitIndexSegment>::generation_number$'), lambda e, c, a: gen[gpos(a)]),
                     (re.compile(r'as CommitIndexSegment>::parent_positions$'), parent_positions),
                     (re.compile(r'as CommitIndexSegment>::num_parents$'), lambda e, c, a: len(parent_positions(e, c, a).l))]
        def id_to_pos(e, c, a):
            b = deref(deref(a[1]).f[0]).l
            if len(b) != 1 or not isinstance(b[0], int): raise EngineError('commit id stub: ids are one concrete byte (the global position)')
            k = seg_of(a[0]); g = b[0]
            return SOME(Agg([g - bounds[k]], 'LocalCommitPosition')) if bounds[k] <= g < bounds[k + 1] and g in P else NONE()
        def ref_cast(e, c, a):
            seg = a[0]
            while isinstance(seg, Ref) and isinstance(seg.get(), Ref): seg = seg.get()
            return Ref([Agg([seg.get()], 'CompositeCommitIndex')], 0)
        self.over += [(re.compile(r'CompositeCommitIndex::new$'), ref_cast),                # #[ref_cast_custom]: &dyn CommitIndexSegment -> &CompositeCommitIndex (transparent wrapper)
                      (re.compile(r'as CommitIndexSegment>::commit_id_to_pos$'), id_to_pos),
                      (re.compile(r'as CommitIndexSegment>::commit_id$'), lambda e, c, a: CID(gpos(a)))]
        self.index = Ref([Agg([segs[-1]], 'CompositeCommitIndex')], 0)            # CompositeCommitIndex(dyn CommitIndexSegment)

    def parents_in_order(self, c):
        """the candidates for parents of c in the order parent_positions lists them"""
        return [p for p in (self.P if self.order == 'asc' else reversed(self.P)) if p < c]

def _ref_cast(e, c, a):
    seg = a[0]
    while isinstance(seg, Ref) and isinstance(seg.get(), Ref): seg = seg.get()
    return Ref([Agg([seg.get()], 'CompositeCommitIndex')], 0)
# #[ref_cast_custom] CompositeCommitIndex::new: &dyn CommitIndexSegment -> &CompositeCommitIndex (repr(transparent) wrapper)
REF_CAST_OVER = [(re.compile(r'CompositeCommitIndex::new$'), _ref_cast)]

def CID(p): return Agg([Vec([p], 'Vec')], 'CommitId')
def GP(p): return Agg([p], 'GlobalCommitPosition')
def plist(v): return [x.f[0] for x in deref(v).l]
def subset(e, items): return [x for x in items if e.choose(2) == 1]

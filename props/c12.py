"""C12  Bookmark target merges resolve only when safe  (lib/src/refs.rs)

Real code from MIR: merge_ref_targets, merge_ref_targets_non_trivial, find_pair_to_remove (+ async closure),
iter_util::fallible_position, Merge::{flatten,simplify,resolve_trivial,swap_remove,adds,removes}, trivial_merge, RefTarget::*.
Stub: `&dyn Index` answers is_ancestor through an uninterpreted relation constrained to be a partial order on the commits
in play (= every DAG shape the targets could live in).
Symbolic: every present term is its own symbolic commit id (equalities between ids decided by the solver), the ancestry relation.
Concrete (enumerated): the arity of left/base/right and which terms are absent.
"""
import itertools, re, z3
from mirsym.harness import *
from mirsym.engine import StubFuture, NONE, SOME, OK

ID = 'C12'
CRATES = ['jj-lib']
NATIVE = 'c12'
BOUNDS = {
    'quick': 'left/base/right arities (1,1,1),(3,1,1),(1,3,1),(1,1,3): every absent/present pattern, every equality pattern of the commit ids, every partial order (ancestry) on them',
    'thorough': 'adds arities (3,3,1),(3,1,3),(1,3,3),(3,3,3) with every absent/present pattern',
}
ASSUMPTIONS = [
    'Index::is_ancestor is an arbitrary reflexive, antisymmetric, transitive relation on the commit ids mentioned by the inputs (uninterpreted relation with the order axioms instantiated); it never fails',
    'input RefTargets have odd arity (type invariant of Merge)',
    '"picking a side" is read as: a side (net add) of the flattened input may disappear from the result only if it equals or is an ancestor of another side; a base may disappear only if it is absent or an ancestor of a side',
    'async functions are run to completion in one poll (no modelled future is ever Pending), the schedule block_on gives them',
]
BUDGET = {'quick': 900, 'thorough': 3000}
F = 'lib/src/refs.rs'
ABS = -1

def jobs(tier):
    ars = [(1, 1, 1), (3, 1, 1), (1, 3, 1), (1, 1, 3)]
    if tier == 'thorough': ars += [(3, 3, 1), (3, 1, 3), (1, 3, 3), (3, 3, 3)]
    out = []
    for ar in ars:
        n = sum(ar)
        for pat in itertools.product((0, 1), repeat=n):           # 1 = present
            out.append(dict(name='ar' + ''.join(map(str, ar)) + '-' + ''.join(map(str, pat)), ar=list(ar), pat=list(pat),
                            rung=0 if n <= 3 else n, weight=2 ** sum(pat)))
    return out

def run_job(ix, job, tier):
    ar, pat = job['ar'], job['pat']; n = sum(ar)
    atoms = [z3.Int(f'c{i}') for i in range(n) if pat[i]]
    anc = z3.Function('anc', z3.IntSort(), z3.IntSort(), z3.BoolSort())
    ax = [a >= 0 for a in atoms]
    for a in atoms:
        ax.append(anc(a, a))
        for b in atoms:
            ax.append(z3.Implies(z3.And(anc(a, b), anc(b, a)), a == b))
            for c in atoms: ax.append(z3.Implies(z3.And(anc(a, b), anc(b, c)), anc(a, c)))
    terms_v = [z3.Int(f'c{i}') if pat[i] else ABS for i in range(n)]              # -1 encodes "absent"
    def cid(a): return Agg([a], 'CommitId')
    def mk_targets():
        it = iter(NONE() if v is ABS else SOME(cid(v)) for v in terms_v)
        return [Agg([mk_merge([next(it) for _ in range(a)])], 'op_store::RefTarget') for a in ar]
    def is_anc(e, c, args):
        a, b = deref(args[1]).f[0], deref(args[2]).f[0]
        return Agg([Ref([StubFuture(OK(anc(a, b)))], 0)], 'Pin')
    over = [(re.compile(r'as (index::)?Index>::is_ancestor'), is_anc)]
    fn = ix.find('merge_ref_targets', file=F)
    L, B, R = terms_v[:ar[0]], terms_v[ar[0]:ar[0] + ar[1]], terms_v[ar[0] + ar[1]:]
    # flattened input: adds = adds(L) + removes(B) + adds(R); removes = removes(L) + adds(B) + removes(R)
    flat_adds = L[0::2] + B[1::2] + R[0::2]; flat_rems = L[1::2] + B[0::2] + R[1::2]
    def tvals(tg): return [(x.f[0].f[0] if x.v == 'Some' else ABS) for x in merge_vals(deref(tg).f[0])]
    def run(e):
        l, b, r = mk_targets()
        coro = e.call_mir(fn, [Ref(['INDEX'], 0), Ref([l], 0), Ref([b], 0), Ref([r], 0)])
        out = e.poll(coro)
        if out.v != 'Ok': raise EngineError('merge_ref_targets returned Err although the index never fails')
        return tvals(out.f[0])
    def teq(x, y):
        return zand([len(x) == len(y)] + [zbool(p == q) if not (isinstance(p, int) and isinstance(q, int)) else (p == q) for p, q in zip(x, y)]) if len(x) == len(y) else z3.BoolVal(False)
    def cnt(vals, x): return z3.Sum([z3.If(v == x, 1, 0) for v in vals]) if vals else z3.IntVal(0)
    x = z3.Int('probe')
    universe = atoms + [z3.IntVal(ABS)]
    def obligations(kind, O, pc, e):
        denI = lambda v: cnt(flat_adds, v) - cnt(flat_rems, v)
        denO = lambda v: cnt(O[0::2], v) - cnt(O[1::2], v)
        yield 'result has odd arity', len(O) % 2 == 1
        yield 'left == base  =>  result == right', z3.Implies(teq(L, B), teq(O, R))
        yield 'right == base  =>  result == left', z3.Implies(teq(R, B), teq(O, L))
        yield 'left == right  =>  result == left', z3.Implies(teq(L, R), teq(O, L))
        if len(L) == len(B) == len(R) == 1 and ABS not in (L[0], B[0], R[0]):
            yield 'fast-forward: base anc left anc right  =>  right', z3.Implies(z3.And(anc(B[0], L[0]), anc(L[0], R[0])), teq(O, R))
            yield 'fast-forward: base anc right anc left  =>  left', z3.Implies(z3.And(anc(B[0], R[0]), anc(R[0], L[0])), teq(O, L))
        yield 'result names only commits named by an input', zand([zor([o == v for v in terms_v if v is not ABS]) for o in O if not (isinstance(o, int) and o == ABS)])
        inU = zor([x == u for u in universe])
        # --- beyond the three identity laws: cancellation rule first (C02, same-change accepted), ancestry rule otherwise
        nontriv_whole = z3.Not(z3.Or(teq(L, B), teq(R, B), teq(L, R)))
        def J(v):           # v is justified by the cancellation rule on the flattened input
            single = z3.And(denI(v) == 1, *[z3.Or(u == v, denI(u) == 0) for u in universe])
            same = z3.And(denI(v) > 0, *[z3.Or(u == v, denI(u) <= 0) for u in universe],
                          *[z3.Or(denI(u) >= 0, denI(w) >= 0, u == w) for u in universe for w in universe])
            return z3.Or(single, same)
        anyJ = zor([J(u) for u in universe])
        yield 'terms cancel to one value  =>  resolved to exactly that value', zand([z3.Implies(z3.And(nontriv_whole, J(u)), teq(O, [u])) for u in universe])
        guard = z3.And(nontriv_whole, z3.Not(anyJ), inU)
        dominated = lambda v: zor([z3.And(denI(u) > 0, z3.Or(z3.And(u != v, anc(v, u)), z3.And(u == v, denI(v) >= 2))) for u in atoms])
        yield 'no new side appears', z3.Implies(z3.And(guard, denO(x) > 0), z3.And(denI(x) > 0, denO(x) <= denI(x)))
        yield 'a side disappears only if it equals or is an ancestor of another side (never picks a side otherwise)', z3.Implies(
            z3.And(guard, denI(x) > 0, denO(x) < denI(x)), z3.And(x != ABS, dominated(x)))
        yield 'a base disappears only if it is absent or an ancestor of a side', z3.Implies(
            z3.And(guard, denI(x) < 0), z3.And(denO(x) >= denI(x), denO(x) <= 0,
                                               z3.Implies(denO(x) > denI(x), z3.Or(x == ABS, zor([z3.And(denI(u) > 0, anc(x, u)) for u in atoms])))))
        yield 'values that cancel in the input stay cancelled', z3.Implies(z3.And(guard, denI(x) == 0), denO(x) == 0)
    def witness(m, kind, O):
        ids = {str(a): mval(m, a) for a in atoms}
        rel = [[mval(m, a), mval(m, b)] for a in atoms for b in atoms if mval(m, anc(a, b))]
        tv = [ABS if v is ABS else mval(m, v) for v in terms_v]
        inp = dict(left=tv[:ar[0]], base=tv[ar[0]:ar[0] + ar[1]], right=tv[ar[0] + ar[1]:], anc=rel)
        return dict(input=inp, expect=None if kind != 'ok' else [o if isinstance(o, int) else mval(m, o) for o in O])
    return explore_job(ix, job['name'], run, obligations, overrides=over, pre=zand(ax) if ax else None, witness=witness, deadline=job.get('deadline'))

def compare_native(case, native):
    if case.get('expect') is None: return ('panic' in native), 'interpreter path panicked but native run did not'
    if 'panic' in native: return False, f'native panic {native["panic"]}'
    return native.get('out') == case['expect'], f'native {native.get("out")} != symbolic {case["expect"]}'

"""std model family 6: BinaryHeap (max-heap) as an unordered list that is ordered on demand.

The heap is a Vec(kind 'BinaryHeap'); every observation (peek/pop/peek_mut/into_sorted_vec) first moves a greatest element
(by the element type's Ord, decided through cmp3: crate impls from MIR, forks on symbolic comparisons) to the end of the list.
A PeekMut is a reference to that last slot; writing through it leaves the list unordered, which the next observation repairs -
the same observable behaviour as std's sift-down in PeekMut::drop.  Iteration order of BinaryHeap::iter / into_vec is
unspecified in std and is not modelled (engine error if used).
"""
import re
from .engine import Agg, Enum, Ref, Vec, It, deref, NONE, SOME, UNIT, EngineError

def register6(E):
    R = lambda rx: (lambda f: (E.models.insert(0, (re.compile(rx), f)), f)[1])
    BH = r'^(std::collections::)?(BinaryHeap|binary_heap::BinaryHeap)::<.*>::'
    PM = r'(std::collections::)?(binary_heap::)?PeekMut'
    def heap(x):
        h = deref(x)
        if not (isinstance(h, Vec) and h.ty == 'BinaryHeap'): raise EngineError(f'not a BinaryHeap: {h!r}')
        return h
    def max_to_end(e, h):
        l = h.l
        if len(l) < 2: return
        bi = 0
        for i in range(1, len(l)):
            if e.cmp3(l[i], l[bi]) == 'Greater': bi = i
        l.append(l.pop(bi))
    @R(BH + r'new$|^<(std::collections::)?BinaryHeap<.*> as Default>::default$|' + BH + r'with_capacity$')
    def _(e, c, a): return Vec([], 'BinaryHeap')
    @R(r'^<(std::collections::)?BinaryHeap<.*> as From<(std::vec::)?Vec<.*>>>::from$|^<(std::collections::)?BinaryHeap<.*> as From<\[.*\]>>::from$')
    def _(e, c, a): return Vec(list(deref(a[0]).l), 'BinaryHeap')
    @R(r'^<(std::collections::)?BinaryHeap<.*> as FromIterator<.*>>::from_iter::<')
    def _(e, c, a): return Vec(list(E.drain_iter(E.it_of(a[0]))), 'BinaryHeap')
    @R(BH + r'push$')
    def _(e, c, a): heap(a[0]).l.append(a[1]); return UNIT
    @R(BH + r'pop$')
    def _(e, c, a):
        h = heap(a[0]); max_to_end(e, h)
        return SOME(h.l.pop()) if h.l else NONE()
    @R(BH + r'peek$')
    def _(e, c, a):
        h = heap(a[0]); max_to_end(e, h)
        return SOME(Ref(h.l, len(h.l) - 1)) if h.l else NONE()
    @R(BH + r'peek_mut$')
    def _(e, c, a):
        h = heap(a[0]); max_to_end(e, h)
        return SOME(Agg([Ref([h], 0)], 'PeekMut')) if h.l else NONE()
    @R(r'^<' + PM + r'<.*> as (Deref|DerefMut)>::(deref|deref_mut)$')
    def _(e, c, a):
        h = heap(deref(a[0]).f[0]); return Ref(h.l, len(h.l) - 1)
    @R(r'^' + PM + r'::<.*>::pop$')
    def _(e, c, a):
        h = heap(a[0].f[0]); return h.l.pop()
    @R(BH + r'(len)$')
    def _(e, c, a): return len(heap(a[0]).l)
    @R(BH + r'(is_empty)$')
    def _(e, c, a): return len(heap(a[0]).l) == 0
    @R(BH + r'(clear)$')
    def _(e, c, a): heap(a[0]).l.clear(); return UNIT
    @R(BH + r'into_sorted_vec$')
    def _(e, c, a):
        h = heap(a[0]); out = []
        for x in h.l:
            i = len(out)
            while i > 0 and e.cmp3(out[i - 1], x) == 'Greater': i -= 1
            out.insert(i, x)
        return Vec(out, 'Vec')
    @R(BH + r'(iter|into_vec|drain)$|^<(std::collections::)?BinaryHeap<.*> as IntoIterator>::into_iter$')
    def _(e, c, a): raise EngineError('BinaryHeap iteration order is unspecified and not modelled')

    # ---------------------------------------------------------------- Itertools::try_collect::<T, U, E>  (= collect::<Result<U, E>>)
    from .mir import split_top
    prev_collect = E.collect_into
    def collect_into6(target, items):
        t = target.strip()
        if re.match(r'\s*<?(std::collections::)?BinaryHeap<', t): return Vec(list(items), 'BinaryHeap')
        return prev_collect(target, items)
    E.collect_into = collect_into6
    @R(r'as Itertools>::try_collect::<(.*)>$')
    def _(e, c, a):
        targs = split_top(re.search(r'as Itertools>::try_collect::<(.*)>$', c).group(1))
        inner = []
        for x in E.drain_iter(E.it_of(a[0])):
            if x.v == 'Err': return x
            inner.append(x.f[0])
        from .engine import OK
        return OK(E.collect_into(targs[1], inner))
    @R(r'as Iterator>::collect::<(.*)>$')
    def _(e, c, a):
        t = re.search(r'as Iterator>::collect::<(.*)>$', c).group(1)
        return E.collect_into(t, E.drain_iter(E.it_of(a[0])))
    @R(r'^(std::result::)?Result::<(std::option::)?Option<.*>::transpose$')
    def _(e, c, a):
        from .engine import OK
        r = a[0]
        if r.v == 'Err': return SOME(r)
        return NONE() if r.f[0].v == 'None' else SOME(OK(r.f[0].f[0]))
    @R(r'^(std::option::)?Option::<(std::result::)?Result<.*>::transpose$')
    def _(e, c, a):
        from .engine import OK
        o = a[0]
        if o.v == 'None': return OK(NONE())
        return o.f[0] if o.f[0].v == 'Err' else OK(SOME(o.f[0].f[0]))
    @R(r'^<(std::collections::)?HashMap<.*> as Index<.*>>::index$')
    def _(e, c, a):
        from .models3 import HMValRef
        hm = deref(a[0])
        for i, (k, v) in enumerate(hm.items):
            if e.branch(E.eq_val(k, a[1])): return HMValRef(hm, i)
        from .engine import Panic
        raise Panic('HashMap index: key not found')

    # ---------------------------------------------------------------- VecDeque as a list (front = index 0)
    VD = r'^(std::collections::)?(VecDeque|vec_deque::VecDeque)::<.*>::'
    def vd(x):
        d = deref(x)
        if not (isinstance(d, Vec) and d.ty == 'VecDeque'): raise EngineError(f'not a VecDeque: {d!r}')
        return d
    @R(VD + r'(new|with_capacity)$|^<(std::collections::)?VecDeque<.*> as Default>::default$')
    def _(e, c, a): return Vec([], 'VecDeque')
    @R(VD + r'push_front$')
    def _(e, c, a): vd(a[0]).l.insert(0, a[1]); return UNIT
    @R(VD + r'push_back$')
    def _(e, c, a): vd(a[0]).l.append(a[1]); return UNIT
    @R(VD + r'pop_front$')
    def _(e, c, a): l = vd(a[0]).l; return SOME(l.pop(0)) if l else NONE()
    @R(VD + r'pop_back$')
    def _(e, c, a): l = vd(a[0]).l; return SOME(l.pop()) if l else NONE()
    @R(VD + r'(front|front_mut)$')
    def _(e, c, a): l = vd(a[0]).l; return SOME(Ref(l, 0)) if l else NONE()
    @R(VD + r'(back|back_mut)$')
    def _(e, c, a): l = vd(a[0]).l; return SOME(Ref(l, len(l) - 1)) if l else NONE()
    @R(VD + r'len$')
    def _(e, c, a): return len(vd(a[0]).l)
    @R(VD + r'is_empty$')
    def _(e, c, a): return len(vd(a[0]).l) == 0
    @R(VD + r'clear$')
    def _(e, c, a): vd(a[0]).l.clear(); return UNIT
    @R(VD + r'(iter|iter_mut)$')
    def _(e, c, a): l = vd(a[0]).l; return It('slice', l=l, pos=0, end=len(l))
    @R(VD + r'binary_search$')
    def _(e, c, a):
        from .engine import OK, ERR
        l = vd(a[0]).l; size = len(l)
        if size == 0: return ERR(0)
        base = 0
        while size > 1:
            half = size // 2; mid = base + half
            if e.cmp3(l[mid], a[1]) != 'Greater': base = mid
            size -= half
        o = e.cmp3(l[base], a[1])
        return OK(base) if o == 'Equal' else ERR(base + (1 if o == 'Less' else 0))

    # ---------------------------------------------------------------- BTreeMap::last_entry / first_entry and OccupiedEntry
    from .models5 import BTreeMapM
    BT = r'^(std::collections::)?(BTreeMap|btree_map::BTreeMap)::<.*>::'
    @R(BT + r'(last_entry|first_entry)$')
    def _(e, c, a):
        m = deref(a[0])
        if not isinstance(m, BTreeMapM): raise EngineError(f'not a BTreeMap: {m!r}')
        if not m.items: return NONE()
        return SOME(Agg([m, Ref(m.items[-1 if 'last' in c else 0][1], 0)], 'BTOccupied'))          # the value cell identifies the entry (Refs are not deep-copied on moves)
    def occ(x):
        o = deref(x)
        if not (isinstance(o, Agg) and o.ty == 'BTOccupied'): raise EngineError(f'not an OccupiedEntry: {o!r}')
        m, r = o.f
        for i, (kk, cell) in enumerate(m.items):
            if cell is r.c: return m, i
        raise EngineError('stale OccupiedEntry')
    OE = r'^(std::collections::)?(btree_map::)?OccupiedEntry::<.*>::'
    @R(OE + r'key$')
    def _(e, c, a): m, i = occ(a[0]); return Ref([m.items[i][0]], 0)
    @R(OE + r'(get|get_mut|into_mut)$')
    def _(e, c, a): m, i = occ(a[0]); return Ref(m.items[i][1], 0)
    @R(OE + r'remove$')
    def _(e, c, a): m, i = occ(a[0]); return m.items.pop(i)[1][0]
    @R(OE + r'remove_entry$')
    def _(e, c, a): m, i = occ(a[0]); k, cell = m.items.pop(i); return Agg([k, cell[0]], 'tup')
    @R(OE + r'insert$')
    def _(e, c, a): m, i = occ(a[0]); old = m.items[i][1][0]; m.items[i][1][0] = a[1]; return old

    # ---------------------------------------------------------------- Rc<[T]> / Arc<[T]> from arrays and vectors: a shared immutable Vec
    @R(r'^<(std::rc::|std::sync::|alloc::rc::|alloc::sync::)?(Rc|Arc)<\[.*\]> as From<.*>>::from$|^<(\[.*\]|(std::vec::)?Vec<.*>) as Into<(std::rc::|std::sync::)?(Rc|Arc)<\[.*\]>>>::into$')
    def _(e, c, a):
        v = deref(a[0])
        return Ref([Vec(list(v.f if isinstance(v, Agg) else v.l), 'Vec')], 0)
    @R(r'^<(std::rc::|std::sync::|alloc::rc::|alloc::sync::)?(Rc|Arc)<.*> as Clone>::clone$')
    def _(e, c, a):
        x = a[0]
        while isinstance(x, Ref) and isinstance(x.get(), Ref): x = x.get()
        return x

    # ---------------------------------------------------------------- Itertools::minmax
    @R(r' as Itertools>::minmax$')
    def _(e, c, a):
        xs = E.drain_iter(E.it_of(a[0]))
        if not xs: return Enum('NoElements', [], 'MinMaxResult')
        if len(xs) == 1: return Enum('OneElement', [xs[0]], 'MinMaxResult')
        lo = hi = xs[0]
        for x in xs[1:]:
            if e.cmp3(x, lo) == 'Less': lo = x
            if e.cmp3(x, hi) != 'Less': hi = x
        return Enum('MinMax', [lo, hi], 'MinMaxResult')
    @R(r'MinMaxResult::<.*>::into_option$')
    def _(e, c, a):
        r = a[0]
        if r.v == 'NoElements': return NONE()
        if r.v == 'OneElement': return SOME(Agg([r.f[0], e.copy_val(r.f[0])], 'tup'))
        return SOME(Agg([r.f[0], r.f[1]], 'tup'))

    # ---------------------------------------------------------------- <[T]>::as_chunks::<N>  ->  (&[[T; N]], &[T])
    @R(r'^core::slice::<impl \[.*\]>::as_chunks::<(\d+)>$')
    def _(e, c, a):
        from .engine import SliceRef
        n = int(re.search(r'as_chunks::<(\d+)>$', c).group(1)); l, lo, hi = E.bl(a[0]); items = l[lo:hi]
        full = len(items) // n
        chunks = [Agg(list(items[i * n:(i + 1) * n]), 'arr') for i in range(full)]
        return Agg([SliceRef(chunks), SliceRef(l, lo + full * n, hi)], 'tup')

    # ---------------------------------------------------------------- Itertools::at_most_one / exactly_one
    @R(r' as Itertools>::(at_most_one|exactly_one)$')
    def _(e, c, a):
        from .engine import OK, ERR
        xs = E.drain_iter(E.it_of(a[0]))
        if c.endswith('at_most_one'):
            if len(xs) == 0: return OK(NONE())
            if len(xs) == 1: return OK(SOME(xs[0]))
        elif len(xs) == 1: return OK(xs[0])
        return ERR(It('list', l=list(xs), pos=0))          # ExactlyOneError: an iterator over the items

"""C03  Content diffs partition their inputs deterministically  (core/src/diff.rs; MIR of jj-core)

Layer (a): hunk iterator step from an *arbitrary valid state*: ContentDiff.unchanged_regions is symbolic (64-bit offsets), real
           compact_unchanged_regions + DiffHunkRangeIterator.  Covers every way the matcher could have produced regions.
Layer (c): end-to-end ContentDiff::{by_line, by_word, unrefined} and diff() on inputs whose bytes are symbolic; the hasher seed
           and the hash function are uninterpreted (collisions allowed), HashTable/BTreeMap iteration order nondeterministic.
"""
import itertools, re, z3
from mirsym.harness import *
from mirsym.engine import NONE, SOME, It

ID = 'C03'
CRATES = ['jj-core']
NATIVE = 'c03'
BOUNDS = {
    'quick': 'comparators: for_tokenizer with line/word tokenizer x {ignore-whitespace-amount, ignore-all-whitespace, exact} on 2 inputs of <=2 lines (free non-LF bytes, with/without final newline); (a) 1..3 matched regions x 2..3 inputs, all offsets 64-bit symbolic; (c) by_line on 2 inputs of <=2 lines (1 symbolic byte per line, with/without final newline), 3 inputs of 1 line; by_word/diff()/unrefined on 2 inputs of 1+1, 2+1, 1+2 fully symbolic bytes',
    'thorough': '(a) up to 4 regions x 3 inputs; (c) by_line up to 3+2 lines and 3 inputs x 2 lines; by_word/diff()/unrefined on 2 inputs up to 3+2 bytes',
}
ASSUMPTIONS = [
    '(a) state invariant assumed for unchanged_regions: sorted, non-overlapping per input, empty sentinel first and last, every matched region non-empty on every side (tokens are non-empty)',
    'hash values are an uninterpreted function of (seed, bytes): equal words hash equally, different words may collide; RandomState seed arbitrary',
    'hashbrown::HashTable / BTreeMap<usize, Vec<..>> / Vec / SmallVec / iterator adaptors are native models (validated per path against the compiled code)',
    'determinism = for the same input bytes, two runs (different seed, hash function, table iteration order) produce the same hunk ranges; checked pairwise between explored paths of a job (jobs with <= 400 paths)',
    'max_occurrences=100 give-up branch of the histogram matcher is outside the bound',
]
BUDGET = {'quick': 900, 'thorough': 3600}
F = 'core/src/diff.rs'
BV64 = lambda n: z3.BitVec(n, 64)

def jobs(tier):
    out = []
    a_cases = [(1, 1), (2, 1), (2, 2), (3, 1)] + ([(3, 2), (4, 1), (4, 2)] if tier == 'thorough' else [])
    for nmid, nothers in a_cases:
        out.append(dict(name=f'a-regions{nmid}-inputs{nothers + 1}', what='a', nmid=nmid, nothers=nothers, rung=0 if nmid * (nothers + 1) <= 4 else 2, weight=10 ** nmid))
    L = lambda n, nl=True: (n, nl)
    line_shapes = [
        [[L(1)], [L(1)]], [[L(1), L(1)], [L(1)]], [[L(1)], [L(1), L(1)]], [[L(1), L(1)], [L(1), L(1)]], [[L(1), L(1)], [L(1), L(1, False)]],
        [[L(1, False)], [L(1)]], [[L(1)], [L(1)], [L(1)]], [[], [L(1)]], [[L(0)], [L(1)]], [[L(0), L(1)], [L(1), L(0)]],
    ]
    if tier == 'thorough':
        line_shapes += [[[L(1), L(1), L(1)], [L(1), L(1)]], [[L(1), L(1)], [L(1), L(1), L(1)]], [[L(1), L(1)], [L(1), L(1)], [L(1), L(1)]], [[L(2), L(1)], [L(1), L(2)]]]
    for i, sh in enumerate(line_shapes):
        n = sum(len(x) for x in sh)
        out.append(dict(name='c-by_line-' + '_'.join(''.join(f'{n_}{"n" if nl else "x"}' for n_, nl in inp) or 'e' for inp in sh), what='c', api='by_line', shape=sh, rung=0 if n <= 2 else (1 if n <= 3 else 2), weight=5 ** n))
    byte_shapes = [(1, 1), (2, 1), (1, 2)] + ([(2, 2), (3, 1), (1, 3), (3, 2), (2, 3)] if tier == 'thorough' else [])
    for api in ('by_word', 'diff', 'unrefined'):
        for sh in byte_shapes:
            out.append(dict(name=f'c-{api}-bytes' + '_'.join(map(str, sh)), what='c', api=api, shape=[[(k, False)] for k in sh], rung=2 if sum(sh) <= 2 else 3, weight=8 ** sum(sh)))
    cmp_shapes = [[[L(1), L(1, False)], [L(1), L(1)]], [[L(1)], [L(1, False)]], [[L(2)], [L(1)]], [[L(1), L(1)], [L(1)]]]
    if tier == 'thorough': cmp_shapes += [[[L(2), L(1, False)], [L(1), L(2)]], [[L(1), L(1), L(1, False)], [L(1), L(1)]]]
    for tok in ('find_line_ranges', 'find_word_ranges'):
        for cmp_ in ('CompareBytesIgnoreWhitespaceAmount', 'CompareBytesIgnoreAllWhitespace', 'CompareBytesExactly'):
            for sh in cmp_shapes:
                n = sum(k for inp in sh for k, _ in inp)
                out.append(dict(name=f'c-tok-{tok}-{cmp_}-' + '_'.join(''.join(f'{n_}{"n" if nl else "x"}' for n_, nl in inp) or 'e' for inp in sh), what='c', api='for_tokenizer', tok=tok, cmp=cmp_,
                                shape=sh, rung=(1 if tok == 'find_line_ranges' else (2 if n <= 2 else 3)), weight=8 ** n, split=('enumerate', 8) if n >= 4 else None))
    if tier == 'quick': out = [j for j in out if j['rung'] <= 1]
    return out

def run_job(ix, job, tier):
    return job_a(ix, job) if job['what'] == 'a' else job_c(ix, job)

# ------------------------------------------------------------------ (a)
def job_a(ix, job):
    nmid, nothers = job['nmid'], job['nothers']
    compact = ix.find_method(F, 'ContentDiff', 'compact_unchanged_regions'); it_new = ix.find_method(F, 'DiffHunkRangeIterator', 'new')
    it_next = ix.find_method(F, 'DiffHunkRangeIterator', 'next', trait='Iterator')
    Ls = [BV64(f'L{i}') for i in range(nothers + 1)]
    pts = [[(BV64(f's{k}_{i}'), BV64(f'e{k}_{i}')) for i in range(nothers + 1)] for k in range(nmid)]
    def mk_regions():
        ur = lambda rs: Agg([rs[0], Vec(rs[1:], 'SmallVec')], 'UnchangedRange')
        regs = [ur([rng(0, 0) for _ in range(nothers + 1)])]
        for k in range(nmid): regs.append(ur([rng(*pts[k][i]) for i in range(nothers + 1)]))
        regs.append(ur([rng(Ls[i], Ls[i]) for i in range(nothers + 1)]))
        return regs
    cs = []
    for i in range(nothers + 1):
        prev = z3.BitVecVal(0, 64)
        for k in range(nmid):
            s, e_ = pts[k][i]; cs += [z3.ULE(prev, s), z3.ULT(s, e_)]; prev = e_
        cs += [z3.ULE(prev, Ls[i]), z3.ULT(Ls[i], 1 << 62)]
    pre = z3.And(cs)
    def run(e):
        diff = mk_struct(ix, F, 'ContentDiff', base_input=Ref([Str([])], 0), other_inputs=Vec([], 'SmallVec'), unchanged_regions=Vec(mk_regions()))
        e.call_mir(compact, [Ref([diff], 0)])
        it = e.call_mir(it_new, [Ref([diff], 0)])
        hunks = []
        for _ in range(2 * (nmid + 2) + 2):
            h = e.call_mir(it_next, [Ref([it], 0)])
            if h.v == 'None': return hunks
            hunks.append(h.f[0])
        raise EngineError('iterator did not finish')
    def obligations(kind, hunks, pc, e):
        pos = [z3.BitVecVal(0, 64)] * (nothers + 1); prevkind = None; alt = True; cont = []; nonempty = []; wf = []
        for h in hunks:
            k, ranges = h.f[0].v, merge_vals(h) if False else h.f[1].l
            if prevkind == k: alt = False
            prevkind = k; emp = []
            for i, r in enumerate(ranges):
                a, b = r.f
                cont.append(a == pos[i]); wf.append(z3.ULE(a, b)); pos[i] = b if not isinstance(b, int) else z3.BitVecVal(b, 64); emp.append(a == b)
            nonempty.append(z3.Not(zand(emp)))
            if len(ranges) != nothers + 1: alt = False
        yield 'matching and differing hunks alternate; every hunk has one range per input', alt
        yield 'hunk ranges are contiguous from offset 0 (concatenation reproduces each input)', zand(cont + [pos[i] == Ls[i] for i in range(nothers + 1)])
        yield 'ranges are well formed', zand(wf)
        yield 'no hunk is empty on every side', zand(nonempty)
        # matching hunks are exactly the (compacted) matched regions: total matched length per input is preserved
        for i in range(nothers + 1):
            tot_in = sum([pts[k][i][1] - pts[k][i][0] for k in range(nmid)], z3.BitVecVal(0, 64))
            tot_out = sum([(h.f[1].l[i].f[1] - h.f[1].l[i].f[0]) for h in hunks if h.f[0].v == 'Matching'], z3.BitVecVal(0, 64))
            yield f'matching hunks cover exactly the matched regions of input {i}', tot_in == tot_out
    return explore_job(ix, job['name'], run, obligations, pre=pre, deadline=job.get('deadline'))

# ------------------------------------------------------------------ (c)
def job_c(ix, job):
    api, shape = job['api'], job['shape']
    inputs = []
    for i, lines in enumerate(shape):
        bs = []
        for j, (n, nl) in enumerate(lines):
            bs += [byte(f'b{i}_{j}_{k}') for k in range(n)]
            if nl: bs.append(10)
        inputs.append(bs)
    syms = [b for bs in inputs for b in bs if not isinstance(b, int)]
    line_mode = api == 'by_line' or api == 'for_tokenizer'
    pre = zand([b != 10 for b in syms]) if line_mode else None          # line structure is the stated shape; contents are free non-LF bytes
    hunk_ranges = ix.find_method(F, 'ContentDiff', 'hunk_ranges'); it_next = ix.find_method(F, 'DiffHunkRangeIterator', 'next', trait='Iterator')
    if api == 'diff': fn = ix.find('diff', file=F)
    else: fn = ix.find_method(F, 'ContentDiff', api)
    cmp_ty = job.get('cmp', 'CompareBytesExactly')
    cmp_eq = ix.find_method(F, cmp_ty, 'eq', trait='CompareBytes')
    hit_next = ix.find_method(F, 'DiffHunkIterator', 'next', trait='Iterator')
    def run(e):
        refs = [Ref([Str(list(bs))], 0) for bs in inputs]
        if api == 'for_tokenizer':
            from mirsym.engine import FnItem
            d = e.call_mir(fn, [It('list', l=refs, pos=0), FnItem(job['tok']), Agg([], cmp_ty)], targs=['[u8]'])
        else: d = e.call_mir(fn, [It('list', l=refs, pos=0)], targs=['[u8]'])
        hunks = []
        if api == 'diff':
            for h in d.l:
                hunks.append((h.f[0].v, [list(e.bl(c)[0][e.bl(c)[1]:e.bl(c)[2]]) for c in h.f[1].l]))
            return ('contents', hunks)
        it = e.call_mir(hunk_ranges, [Ref([d], 0)])
        while True:
            h = e.call_mir(it_next, [Ref([it], 0)])
            if h.v == 'None': break
            hunks.append((h.f[0].f[0].v, [(r.f[0], r.f[1]) for r in h.f[0].f[1].l]))
        eqs = []
        if cmp_ty != 'CompareBytesExactly':
            for k, rs in hunks:
                if k != 'Matching': continue
                for i in range(1, len(rs)):
                    eqs.append(e.call_mir(cmp_eq, [Ref([Agg([], cmp_ty)], 0), SliceRef(list(inputs[0]), rs[0][0], rs[0][1]), SliceRef(list(inputs[i]), rs[i][0], rs[i][1])]))
        return ('ranges', hunks, eqs)
    def obligations(kind, out, pc, e):
        mode, hunks = out[0], out[1]
        alt = all(a[0] != b[0] for a, b in zip(hunks, hunks[1:])) and all(len(h[1]) == len(inputs) for h in hunks)
        yield 'matching and differing hunks alternate; one slice per input', alt
        if not alt: return
        if mode == 'ranges':
            if not all(isinstance(x, int) for h in hunks for r in h[1] for x in r): raise EngineError('symbolic hunk range in end-to-end run')
            pos = [0] * len(inputs); ok = True
            for k, ranges in hunks:
                for i, (a, b) in enumerate(ranges):
                    ok = ok and a == pos[i] and a <= b <= len(inputs[i]); pos[i] = b
            yield 'concatenating the slices reproduces every input', ok and pos == [len(b) for b in inputs]
            slices = [(k, [inputs[i][a:b] for i, (a, b) in enumerate(ranges)]) for k, ranges in hunks]
        else:
            cat = [sum([h[1][i] for h in hunks], []) for i in range(len(inputs))]
            yield 'concatenating the slices reproduces every input', zand([same_bytes(cat[i], inputs[i]) for i in range(len(inputs))])
            slices = hunks
        yield 'no hunk is empty on every side', all(any(len(s) > 0 for s in sl) for k, sl in slices)
        if cmp_ty == 'CompareBytesExactly': yield 'matching hunks are equal on all sides', zand([same_bytes(sl[0], s) for k, sl in slices if k == 'Matching' for s in sl[1:]])
        else: yield 'matching hunks are equal under the chosen comparison', zand([zbool(x) for x in out[2]])
    def witness(m, k, out):
        inp = dict(api=api, inputs=[[mval(m, b) for b in bs] for bs in inputs], tok=job.get('tok'), cmp=job.get('cmp'))
        if k != 'ok': return dict(input=inp, expect=None)
        mode, hunks = out[0], out[1]
        if mode == 'ranges': exp = [[kk, [[a, b] for a, b in rs]] for kk, rs in hunks]
        else: exp = [[kk, [[mval(m, b) for b in s] for s in sl]] for kk, sl in hunks]
        return dict(input=inp, expect=exp)
    res = explore_job(ix, job['name'], run, obligations, pre=pre, witness=witness, deadline=job.get('deadline'), keep_results=True, split=job.get('split'))
    determinism(res, syms)
    res.results = None
    return res

def same_bytes(a, b):
    if len(a) != len(b): return z3.BoolVal(False)
    cs = []
    for x, y in zip(a, b):
        if isinstance(x, int) and isinstance(y, int):
            if x != y: return z3.BoolVal(False)
        else: cs.append(x == y)
    return zand(cs)

def determinism(res, syms):
    """two explored paths with different outputs must not share an input: (exists env. PC_p) and (exists env'. PC_q) unsat on the input bytes"""
    results = getattr(res, 'results', None)
    if not results or len(results) > 3000 or res.inconclusive: return
    from mirsym.models2 import _hash_fns
    oks = [(out, pc) for kind, out, pc in results if kind == 'ok']
    def key(out): return repr(out)
    seed = z3.Int('hash_seed'); seed2 = z3.Int('hash_seed__2')
    fmap = [(f, z3.Function(f.name() + '__2', *[f.domain(i) for i in range(f.arity())], f.range())(*[z3.Var(i, f.domain(i)) for i in range(f.arity())])) for f in _hash_fns.values()]
    groups = {}
    for o, pc in oks: groups.setdefault(key(o), (o, []))[1].append(z3.And(*pc) if pc else z3.BoolVal(True))
    gl = list(groups.values())
    def second_run(f):
        q = z3.substitute(f, (seed, seed2))
        return z3.substitute_funs(q, *fmap) if fmap else q
    for (o1, p1), (o2, p2) in itertools.combinations(gl, 2):
        res.obligations += 1
        s = z3.Solver(); s.set('timeout', 60000); s.add(z3.Or(*p1)); s.add(second_run(z3.Or(*p2)))
        r = s.check()
        if r == z3.unsat: res.discharged += 1
        elif r == z3.sat:
            res.violations.append(Violation(res.name, 'hunks are the same on every run (determinism)', model_to_json(s.model()), f'two runs on the same input differ: {short(o1, 200)} vs {short(o2, 200)}'))
        else: res.inconclusive.append('determinism query unknown')

def compare_native(case, native):
    if case.get('expect') is None: return ('panic' in native), 'interpreter path panicked but native run did not'
    if 'panic' in native: return False, f'native panic {native["panic"]}'
    return native.get('out') == case['expect'], f'native {native.get("out")} != symbolic {case["expect"]}'

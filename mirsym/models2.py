"""More models: byte slices, hashing (uninterpreted), HashTable, BTreeMap, iterator adaptors used by diff.rs."""
import re, itertools
import z3
from .engine import *

class HasherM:
    def __init__(self, seed): self.seed, self.log = seed, []
class HashTableM:
    def __init__(self): self.items = []          # [(hash, value_cell_list)]
class BTreeMapM:
    def __init__(self): self.items = []          # sorted by concrete/symbolic key via forking

_hash_fns = {}
def hash_uf(n):
    if n not in _hash_fns:
        _hash_fns[n] = z3.Function(f'hash_{n}', z3.IntSort(), *([z3.BitVecSort(8)] * n), z3.BitVecSort(64))
    return _hash_fns[n]

def register2(E):
    R = lambda rx: (lambda f: (E.models.insert(0, (re.compile(rx), f)), f)[1])
    eq_val = E.eq_val; clone_val = E.clone_val
    def bv8(x): return z3.BitVecVal(x, 8) if isinstance(x, int) else x
    def sl(x):
        """byte/elem list view (list, lo, hi) of Str / SliceRef / Vec"""
        x = deref(x)
        while isinstance(x, Agg) and len(x.f) == 1 and x.ty not in ('arr', 'tup'): x = deref(x.f[0])
        if isinstance(x, Str): return x.b, 0, len(x.b)
        if isinstance(x, SliceRef): return x.l, x.lo, x.hi
        if isinstance(x, Vec): return x.l, 0, len(x.l)
        if isinstance(x, Agg) and x.ty == 'arr': return x.f, 0, len(x.f)
        raise EngineError(f'not slice-like: {x!r}')
    def it_of(x):
        if isinstance(x, It): return x
        x0 = deref(x)
        if isinstance(x0, It): return x0
        if isinstance(x0, Agg) and x0.ty and 'RangeInclusive' in x0.ty: return It('range', pos=x0.f[0], end=x0.f[1] + 1)
        if isinstance(x0, Agg) and x0.ty and 'RangeFrom' in x0.ty: return It('range', pos=x0.f[0], end=float('inf'))
        if isinstance(x0, Agg) and x0.ty and 'Range' in x0.ty: return It('range', pos=x0.f[0], end=x0.f[1])
        if isinstance(x0, Agg) and x0.ty and x0.ty not in ('arr', 'tup') and 'Range' not in x0.ty and E._find_impl('next', 'Iterator', x0.ty, 1) is not None: return It('crate', obj=[x0])
        if isinstance(x0, HashTableM):
            p = E.pick_order(len(x0.items))
            return It('list', l=[Ref(x0.items[i][1], 0) for i in p], pos=0)
        l, lo, hi = sl(x0)
        if isinstance(x, Ref) or isinstance(x0, (SliceRef, Str)): return It('slice', l=l, pos=lo, end=hi)
        return It('list', l=list(l[lo:hi]), pos=0)
    def nxt(it): return E.it_next(it)
    def drain(it):
        out = []
        while True:
            n = nxt(it)
            if n.v == 'None': return out
            out.append(n.f[0])
    base_next = E._it_next_base
    def it_next2(it):
        k = it.kind
        if k == 'take_while':
            if it.done: return NONE()
            n = nxt(it.a)
            if n.v == 'None': return n
            if E.branch(E.closure_call(it.f, [Ref([n.f[0]], 0)])): return n
            it.done = True; return NONE()
        if k == 'filter_map':
            while True:
                n = nxt(it.a)
                if n.v == 'None': return n
                r = E.closure_call(it.f, [n.f[0]])
                if r.v == 'Some': return r
        if k == 'filter':
            while True:
                n = nxt(it.a)
                if n.v == 'None': return n
                if E.branch(E.closure_call(it.f, [Ref([n.f[0]], 0)])): return n
        if k == 'flat_map':
            while True:
                if it.cur is not None:
                    n = nxt(it.cur)
                    if n.v == 'Some': return n
                    it.cur = None
                n = nxt(it.a)
                if n.v == 'None': return n
                it.cur = it_of(E.closure_call(it.f, [n.f[0]]))
        if k == 'scan':
            n = nxt(it.a)
            if n.v == 'None': return n
            return E.closure_call(it.f, [Ref(it.st, 0), n.f[0]])
        if k == 'peekable':
            if it.peeked is not None: p = it.peeked; it.peeked = None; return p
            return nxt(it.a)
        if k == 'split_inclusive':
            if it.pos >= it.end: return NONE()
            start = it.pos
            while it.pos < it.end:
                b = it.l[it.pos]; it.pos += 1
                if E.branch(E.closure_call(it.f, [Ref(it.l, it.pos - 1)])): break
            return SOME(Ref([Str(it.l[start:it.pos])], 0))
        if k == 'windows':
            if it.pos + it.n > it.end: return NONE()
            it.pos += 1; return SOME(SliceRef(it.l, it.pos - 1, it.pos - 1 + it.n))
        return base_next(it)
    E.it_next = it_next2
    # rebind the closure-local it_next used by models registered earlier: they call E.it_next through e.it_next? (they use local fn) -> patch by wrapping kinds
    E._it_next2 = it_next2

    @R(r'^BStr::new::<|^bstr::BStr::new::<|as AsRef<\[u8\]>>::as_ref$|^(std::string::)?String::as_bytes$|^core::str::<impl str>::as_bytes$')
    def _(e, c, a): return a[0]
    @R(r'^<BStr as Deref>::deref$|^<bstr::BStr as Deref>::deref$')
    def _(e, c, a): return a[0]
    @R(r'^core::slice::<impl \[.*\]>::is_empty$|^BStr::is_empty$')
    def _(e, c, a): l, lo, hi = sl(a[0]); return hi == lo
    @R(r'^core::slice::<impl \[.*\]>::len$')
    def _(e, c, a): l, lo, hi = sl(a[0]); return hi - lo
    @R(r'^core::slice::<impl \[.*\]>::iter$')
    def _(e, c, a): l, lo, hi = sl(a[0]); return It('slice', l=l, pos=lo, end=hi)
    @R(r'^core::slice::<impl \[u8\]>::split_inclusive::<')
    def _(e, c, a): l, lo, hi = sl(a[0]); return It('split_inclusive', l=l, pos=lo, end=hi, f=a[1])
    @R(r'^core::slice::<impl \[.*\]>::windows$')
    def _(e, c, a): l, lo, hi = sl(a[0]); return It('windows', l=l, pos=lo, end=hi, n=a[1])
    @R(r'^core::slice::<impl \[.*\]>::reverse$')
    def _(e, c, a): l, lo, hi = sl(a[0]); l[lo:hi] = l[lo:hi][::-1]; return UNIT
    @R(r'^core::slice::<impl \[.*\]>::sort_unstable_by_key::<')
    def _(e, c, a):
        l, lo, hi = sl(a[0]); items = l[lo:hi]
        keys = [E.closure_call(a[1], [Ref([x], 0)]) for x in items]
        ks = [deref(k) for k in keys]; ks = [k.f[0] if isinstance(k, Agg) else k for k in ks]
        if not all(isinstance(k, int) for k in ks): raise EngineError('symbolic sort key')
        order = sorted(range(len(items)), key=lambda i: ks[i]); l[lo:hi] = [items[i] for i in order]; return UNIT
    @R(r'as Index<(std::ops::)?Range<usize>>>::index$')
    def _(e, c, a):
        l, lo, hi = sl(a[0]); r = a[1]; s, t = r.f
        if not (isinstance(s, int) and isinstance(t, int)): raise EngineError('symbolic range index')
        if s > t or t > hi - lo: raise Panic('range index out of bounds')
        x = deref(a[0])
        return Ref([Str(l[lo + s:lo + t])], 0) if isinstance(x, Str) else SliceRef(l, lo + s, lo + t)
    @R(r'as TryInto<.*>>::try_into$')
    def _(e, c, a):
        l, lo, hi = sl(a[0]); return OK(Ref([Agg(l[lo:hi], 'arr')], 0))
    @R(r'^(std|alloc)::vec::from_elem::<|^(smallvec::)?SmallVec::<.*>::from_elem$')
    def _(e, c, a): return Vec([e.copy_val(a[0]) if not isinstance(a[0], Vec) else clone_val(a[0]) for _ in range(a[1])], 'SmallVec' if 'SmallVec' in c else 'Vec')
    @R(r'^(std|core)::iter::repeat_n::<')
    def _(e, c, a): return It('list', l=[clone_val(a[0]) for _ in range(a[1])], pos=0)
    @R(r'^(SmallVec|Vec)::<.*>::(is_empty)$')
    def _(e, c, a): return len(deref(a[0]).l) == 0
    @R(r'^(smallvec::)?SmallVec::<.*>::as_slice$|^Vec::<.*>::as_slice$')
    def _(e, c, a): return SliceRef(deref(a[0]).l)
    @R(r'^core::num::<impl usize>::(saturating_sub|min|max)$')
    def _(e, c, a):
        if 'saturating_sub' in c: return max(0, a[0] - a[1])
        return min(a[0], a[1]) if c.endswith('min') else max(a[0], a[1])
    @R(r'^core::bool::<impl bool>::then_some::<')
    def _(e, c, a): return SOME(a[1]) if e.branch(a[0]) else NONE()
    @R(r'Option::<.*>::is_some_and::<|Option::<.*>::is_none_or::<')
    def _(e, c, a):
        o = a[0]
        if o.v == 'None': return 'is_none_or' in c
        return e.closure_call(a[1], [o.f[0]])
    @R(r'Option::<.*>::unwrap_or_else::<')
    def _(e, c, a): return a[0].f[0] if a[0].v == 'Some' else e.closure_call(a[1], [])
    @R(r'Option::<.*>::unwrap_or_default$')
    def _(e, c, a): return a[0].f[0] if a[0].v == 'Some' else 0

    @R(r'^(smallvec::)?SmallVec::<.*>::inline_size$')
    def _(e, c, a):
        mm = re.search(r'SmallVec::<\[.*; (\d+)\]>::inline_size$', c)
        if not mm: raise EngineError('inline capacity of ' + c)
        return int(mm.group(1))
    @R(r'^(std::ops::)?RangeInclusive::<.*>::new$')
    def _(e, c, a): return Agg([a[0], a[1]], 'std::ops::RangeInclusive')
    @R(r'^Vec::<.*>::extend_from_slice$')
    def _(e, c, a):
        l, lo, hi = sl(a[1]); t = deref(a[0])
        while isinstance(t, Agg) and len(t.f) == 1: t = deref(t.f[0])       # newtype over Vec (BString)
        if not isinstance(t, Vec): raise EngineError(f'extend_from_slice on {t!r}'[:300])
        t.l.extend(l[lo:hi]); return UNIT
    @R(r'^(bstr::)?BString::new$|^<(bstr::)?BString as From<.*>>::from$|^<(bstr::)?BString as Default>::default$')
    def _(e, c, a): return Vec(list(sl(a[0])[0][sl(a[0])[1]:sl(a[0])[2]]) if a else [], 'BString')
    @R(r'^<(bstr::)?BString as Deref(Mut)?>::deref(_mut)?$')
    def _(e, c, a): return a[0] if isinstance(a[0], Ref) else Ref([a[0]], 0)
    @R(r'as Borrow<(bstr::)?BStr>>::borrow$|^<(bstr::)?BStr as ToOwned>::to_owned$')
    def _(e, c, a):
        if c.endswith('to_owned'): return Vec(list(sl(a[0])[0][sl(a[0])[1]:sl(a[0])[2]]), 'BString')
        return a[0]
    @R(r'as Iterator>::size_hint$')
    def _(e, c, a): return Agg([0, NONE()], 'tup')
    @R(r'as Itertools>::zip_longest::<')
    def _(e, c, a):
        xs, ys = drain(it_of(a[0])), drain(it_of(a[1])); out = []
        for i in range(max(len(xs), len(ys))):
            if i < len(xs) and i < len(ys): out.append(Enum('Both', [xs[i], ys[i]], 'EitherOrBoth'))
            elif i < len(xs): out.append(Enum('Left', [xs[i]], 'EitherOrBoth'))
            else: out.append(Enum('Right', [ys[i]], 'EitherOrBoth'))
        return It('list', l=out, pos=0)
    # ---- iterator adaptors
    @R(r'as Iterator>::take_while::<')
    def _(e, c, a): return It('take_while', a=it_of(a[0]), f=a[1], done=False)
    @R(r'as Iterator>::filter_map::<')
    def _(e, c, a): return It('filter_map', a=it_of(a[0]), f=a[1])
    @R(r'as Iterator>::filter::<')
    def _(e, c, a): return It('filter', a=it_of(a[0]), f=a[1])
    @R(r'as Iterator>::flat_map::<')
    def _(e, c, a): return It('flat_map', a=it_of(a[0]), f=a[1], cur=None)
    @R(r'as Iterator>::scan::<')
    def _(e, c, a): return It('scan', a=it_of(a[0]), st=[a[1]], f=a[2])
    @R(r'as Iterator>::peekable$')
    def _(e, c, a): return It('peekable', a=it_of(a[0]), peeked=None)
    @R(r'Peekable::<.*>::peek$')
    def _(e, c, a):
        it = deref(a[0])
        if it.peeked is None: it.peeked = nxt(it.a)
        return SOME(Ref(it.peeked.f, 0)) if it.peeked.v == 'Some' else NONE()
    @R(r'as Iterator>::count$')
    def _(e, c, a): return len(drain(it_of(a[0])))
    @R(r'as Iterator>::max$|as Iterator>::min$')
    def _(e, c, a):
        xs = drain(it_of(a[0]))
        if not xs: return NONE()
        if not all(isinstance(x, int) for x in xs): raise EngineError('symbolic max')
        return SOME(max(xs) if c.endswith('max') else min(xs))
    @R(r'as Iterator>::find_map::<')
    def _(e, c, a):
        it = it_of(a[0])
        while True:
            n = nxt(it)
            if n.v == 'None': return n
            r = e.closure_call(a[1], [n.f[0]])
            if r.v == 'Some': return r
    @R(r'as Iterator>::unzip::<')
    def _(e, c, a):
        xs = drain(it_of(a[0])); return Agg([Vec([x.f[0] for x in xs]), Vec([x.f[1] for x in xs])], 'tup')
    @R(r'as Iterator>::fold::<')
    def _(e, c, a):
        acc = a[1]
        for x in drain(it_of(a[0])): acc = e.closure_call(a[2], [acc, x])
        return acc
    @R(r'as DoubleEndedIterator>::next_back$')
    def _(e, c, a):
        it = deref(a[0])
        if it.kind == 'slice':
            if it.pos >= it.end: return NONE()
            it.end -= 1; return SOME(Ref(it.l, it.end))
        raise EngineError('next_back on ' + it.kind)
    @R(r'as Iterator>::(rev)$')
    def _(e, c, a): return It('rev', a=it_of(a[0]))
    @R(r'as Iterator>::(skip)$')
    def _(e, c, a): return It('skip', a=it_of(a[0]), n=a[1])
    @R(r'as Iterator>::all_equal$|as Itertools>::all_equal$')
    def _(e, c, a):
        xs = drain(it_of(a[0]))
        return all(e.branch(eq_val(xs[0], x)) for x in xs[1:])

    @R(r'as IntoIterator>::into_iter$')
    def _(e, c, a):
        x0 = deref(a[0])
        if isinstance(x0, (HashTableM,)): return it_of(a[0])
        if isinstance(x0, BTreeMapM): return It('list', l=[Agg([Ref([k], 0), Ref(cell, 0)], 'tup') for k, cell in x0.items], pos=0)
        for rx, f in E.models:
            if f is not _into_iter_self and rx.search(c): return f(e, c, a)
    _into_iter_self = _
    @R(r'^itertools::merge_join_by::<')
    def _(e, c, a):
        xs, ys = drain(it_of(a[0])), drain(it_of(a[1])); out = []; i = j = 0
        while i < len(xs) and j < len(ys):
            o = e.closure_call(a[2], [Ref([xs[i]], 0), Ref([ys[j]], 0)])
            if o.v == 'Less': out.append(Enum('Left', [xs[i]], 'EitherOrBoth')); i += 1
            elif o.v == 'Greater': out.append(Enum('Right', [ys[j]], 'EitherOrBoth')); j += 1
            else: out.append(Enum('Both', [xs[i], ys[j]], 'EitherOrBoth')); i += 1; j += 1
        out += [Enum('Left', [x], 'EitherOrBoth') for x in xs[i:]] + [Enum('Right', [y], 'EitherOrBoth') for y in ys[j:]]
        return It('list', l=out, pos=0)
    @R(r'^(itertools::)?EitherOrBoth::<.*>::both$')
    def _(e, c, a): return SOME(Agg(list(a[0].f), 'tup')) if a[0].v == 'Both' else NONE()
    @R(r'^<(usize|u32|u64|u8|i32|i64) as Ord>::cmp$|^<(usize|u32|u64|u8|i32|i64) as PartialOrd>::partial_cmp$')
    def _(e, c, a):
        x, y = deref(a[0]), deref(a[1])
        if not (isinstance(x, int) and isinstance(y, int)): raise EngineError('symbolic cmp')
        o = Enum('Less' if x < y else ('Greater' if x > y else 'Equal'), [], 'Ordering')
        return SOME(o) if 'partial_cmp' in c else o
    # ---- hashing: uninterpreted function of (seed, bytes)
    @R(r'^(std::hash::)?RandomState::new$')
    def _(e, c, a): return Agg([z3.Int('hash_seed')], 'RandomState')
    @R(r'as BuildHasher>::build_hasher$')
    def _(e, c, a): return HasherM(deref(a[0]).f[0])
    # The hasher state is the flat byte stream fed to it (what any streaming Hasher such as SipHash sees); finish() is an
    # uninterpreted function of (seed, stream): equal streams hash equally, different streams may collide.
    def int_bytes(v, nbytes):
        if isinstance(v, bool): v = int(v)
        if isinstance(v, int): return [(v >> (8 * i)) & 0xff for i in range(nbytes)]
        if z3.is_bv(v):
            w = v.size()
            return [z3.Extract(8 * i + 7, 8 * i, v) if 8 * i + 7 < w else 0 for i in range(nbytes)]
        raise EngineError(f'hash of {v!r}')
    def hash_value(e, v, h):
        v = deref(v)
        while isinstance(v, Agg) and len(v.f) == 1 and v.ty not in ('arr', 'tup'): v = deref(v.f[0])
        if isinstance(v, (Str, SliceRef)) or (isinstance(v, Vec) and v.ty in ('String', 'BString', 'Vec')):
            l, lo, hi = sl(v); h.log.extend(int_bytes(hi - lo, 8)); h.log.extend(l[lo:hi])
            if isinstance(v, Str) or (isinstance(v, Vec) and v.ty == 'String'): h.log.append(0xff)
        elif isinstance(v, (int, bool)) or z3.is_bv(v): h.log.extend(int_bytes(v, (v.size() // 8) if z3.is_bv(v) else 8))
        elif isinstance(v, Agg) and v.ty in ('tup', 'arr'):
            for x in v.f: hash_value(e, x, h)
        else: raise EngineError(f'hash of {v!r}')
    @R(r'as Hash>::hash::<')
    def _(e, c, a):
        m_ = re.match(r'^<(u8|u16|u32|u64|usize|i32|i64) as Hash>', c)
        h = deref(a[1])
        if m_:
            v = deref(a[0]); h.log.extend(int_bytes(v, {'u8': 1, 'u16': 2, 'u32': 4, 'i32': 4}.get(m_.group(1), 8)))
        else: hash_value(e, a[0], h)
        return UNIT
    @R(r'as Hasher>::write_(usize|u64|i64|isize)$')
    def _(e, c, a): deref(a[0]).log.extend(int_bytes(a[1], 8)); return UNIT
    @R(r'as Hasher>::write_(u32|i32)$')
    def _(e, c, a): deref(a[0]).log.extend(int_bytes(a[1], 4)); return UNIT
    @R(r'as Hasher>::write_(u8|i8)$')
    def _(e, c, a): deref(a[0]).log.extend(int_bytes(a[1], 1)); return UNIT
    @R(r'as Hasher>::write_u16$')
    def _(e, c, a): deref(a[0]).log.extend(int_bytes(a[1], 2)); return UNIT
    @R(r'as Hasher>::write$')
    def _(e, c, a): l, lo, hi = sl(a[1]); deref(a[0]).log.extend(l[lo:hi]); return UNIT
    @R(r'as Hasher>::finish$')
    def _(e, c, a):
        h = deref(a[0]); bs = h.log
        f = hash_uf(len(bs))
        return f(h.seed, *[bv8(b) for b in bs])
    @R(r'as BuildHasher>::hash_one::<')
    def _(e, c, a):
        h = HasherM(deref(a[0]).f[0]); hash_value(e, a[1], h)
        return hash_uf(len(h.log))(h.seed, *[bv8(b) for b in h.log])

    # ---- hashbrown::HashTable
    @R(r'^(hashbrown::)?HashTable::<.*>::new$')
    def _(e, c, a): return HashTableM()
    def ht_lookup(e, ht, h, eqf):
        for i, (hh, cell) in enumerate(ht.items):
            if e.branch(hh == h):
                if e.branch(e.closure_call(eqf, [Ref(cell, 0)])): return i
        return None
    @R(r'^(hashbrown::)?HashTable::<.*>::entry::<')
    def _(e, c, a):
        ht = deref(a[0]); i = ht_lookup(e, ht, a[1], a[2])
        return Enum('Occupied', [ht, i], 'HTEntry') if i is not None else Enum('Vacant', [ht, a[1]], 'HTEntry')
    @R(r'(hash_table::)?Entry::<.*>::and_modify::<')
    def _(e, c, a):
        en = a[0]
        if en.ty == 'Entry':                      # std HashMap entry (association list)
            if en.v == 'Occupied':
                hm, i = en.f; slot = [hm.items[i][1]]
                e.closure_call(a[1], [Ref(slot, 0)]); hm.items[i] = (hm.items[i][0], slot[0])
            return en
        if en.ty != 'HTEntry': raise EngineError('entry kind')
        if en.v == 'Occupied': ht, i = en.f; e.closure_call(a[1], [Ref(ht.items[i][1], 0)])
        return en
    @R(r'(hash_table::)?Entry::<.*>::or_insert_with::<')
    def _(e, c, a):
        en = a[0]
        if en.v == 'Vacant': ht, h = en.f; ht.items.append((h, [e.closure_call(a[1], [])]))
        return UNIT
    @R(r'^(hashbrown::)?HashTable::<.*>::find::<')
    def _(e, c, a):
        ht = deref(a[0]); i = ht_lookup(e, ht, a[1], a[2])
        return SOME(Ref(ht.items[i][1], 0)) if i is not None else NONE()

    # ---- BTreeMap with concrete keys (diff.rs uses usize counts)
    @R(r'^(std::collections::)?BTreeMap::<.*>::new$')
    def _(e, c, a): return BTreeMapM()
    @R(r'^(std::collections::)?BTreeMap::<.*>::entry$')
    def _(e, c, a):
        m = deref(a[0]); k = a[1]
        if not isinstance(k, int): raise EngineError('symbolic BTreeMap key')
        for i, (kk, cell) in enumerate(m.items):
            if kk == k: return Enum('Occupied', [m, i], 'BTEntry')
        return Enum('Vacant', [m, k], 'BTEntry')
    @R(r'(btree_map::)?Entry::<.*>::or_default$')
    def _(e, c, a):
        en = a[0]
        if en.v == 'Vacant':
            m, k = en.f; m.items.append((k, [Vec([])])); m.items.sort(key=lambda kv: kv[0]); i = [kk for kk, _ in m.items].index(k)
        else: m, i = en.f
        return Ref(m.items[i][1], 0)
    @R(r'^(std::collections::)?BTreeMap::<.*>::keys$')
    def _(e, c, a): m = deref(a[0]); return It('list', l=[Ref([k], 0) for k, _ in m.items], pos=0)
    @R(r'^(std::collections::)?BTreeMap::<.*>::values$')
    def _(e, c, a): m = deref(a[0]); return It('list', l=[Ref(cell, 0) for _, cell in m.items], pos=0)

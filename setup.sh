#!/bin/sh
# Build everything the checks need from files on disk only (offline): MIR dumps of the current /repo tree (nightly),
# the native replay runner (stable), and an interpreter self-test.
cd "$(dirname "$0")" || exit 2
export CARGO_NET_OFFLINE=true
set -e
python3-vt -m mirsym.front jj-core jj-lib jj-cli
python3-vt -c "from mirsym import native; print(native.build())"
python3-vt -m mirsym.selftest

"""C31  Fileset expressions select the paths their definition says  (lib/src/fileset.rs, operator/leaf layer)

Real code from MIR: FilesetExpression::to_matcher -> build_union_matcher / union_all_matchers, the Matcher impls of
Nothing/Everything/Files/Prefix/Union/Intersection/Difference (incl. Box<dyn Matcher> dispatch), RepoPathTree.
Symbolic: the bytes of every path component in the expression and in the query path.  Enumerated: the expression shape.
"""
import itertools, re, z3
from mirsym.harness import *
from mirsym.engine import NONE, SOME, It

ID = 'C31'
CRATES = ['jj-lib']
NATIVE = 'c31'
BOUNDS = {
    'quick': 'every expression tree of depth <= 1 over leaves {none, all, file:p, prefix:p} with p of 1..2 one-byte components, union of 2..3, intersection, difference; depth-2 trees op(op(l,l),l) / op(l,op(l,l)) with 1-component leaves; query path of 1..3 components; all component bytes symbolic',
    'thorough': 'depth-2 trees with 1..2-component leaves; query path 1..3 components',
}
ASSUMPTIONS = [
    'covers the evaluation semantics of the operator/leaf layer only: parsing (pest), cwd-relative path resolution and glob patterns (globset/regex) are outside the encodable code',
    'path components are single printable-ASCII non-"/" bytes',
]
BUDGET = {'quick': 900, 'thorough': 3000}
F = 'lib/src/fileset.rs'
LEAF_KINDS = ['none', 'all', 'file', 'prefix']

def leaves(maxlen):
    out = [('none',), ('all',)]
    for n in range(1, maxlen + 1): out += [('file', n), ('prefix', n)]
    out.append(('prefix', 0))
    return out

def jobs(tier):
    out = []; trees = []
    l2 = leaves(2); l1 = leaves(1)
    for a in l2: trees.append((a, 0))
    for op in ('union', 'inter', 'diff'):
        for a, b in itertools.product(l2, repeat=2): trees.append(((op, a, b), 1))
    for a, b, c in itertools.product(l1, repeat=3): trees.append((('union', a, b, c), 1))
    inner_leaves = l1 if tier == 'quick' else l2
    for op1 in ('union', 'inter', 'diff'):
        for op2 in ('union', 'inter', 'diff'):
            for a, b, c in itertools.product([x for x in inner_leaves if x[0] in ('file', 'prefix', 'all')], repeat=3):
                trees.append(((op1, (op2, a, b), c), 2)); trees.append(((op1, a, (op2, b, c)), 2))
    for i, (t, d) in enumerate(trees):
        if tier == 'quick' and d > 1: continue
        out.append(dict(name=f't{i}-' + tname(t), tree=t, rung=d, weight=1 + d))
    return out

def tname(t):
    if t[0] in ('none', 'all'): return t[0]
    if t[0] in ('file', 'prefix'): return f'{t[0]}{t[1]}'
    return t[0] + '(' + ','.join(tname(x) for x in t[1:]) + ')'

def run_job(ix, job, tier):
    tree = job['tree']
    to_matcher = ix.find_method(F, 'FilesetExpression', 'to_matcher')
    counter = [0]; syms = []
    def comps(n):
        out = []
        for _ in range(n):
            b = byte(f'p{counter[0]}'); counter[0] += 1; syms.append(b); out.append([b])
        return out
    def pathbuf(cs):
        b = []
        for i, c in enumerate(cs):
            if i: b.append(47)
            b.extend(c)
        return Agg([Vec(b, 'String')], 'RepoPathBuf')
    def build(t):
        """returns (expression value, semantic function q_components -> z3 bool)"""
        if t[0] == 'none': return Enum('None', [], 'FilesetExpression'), (lambda q: z3.BoolVal(False))
        if t[0] == 'all': return Enum('All', [], 'FilesetExpression'), (lambda q: z3.BoolVal(True))
        if t[0] in ('file', 'prefix'):
            cs = comps(t[1])
            pat = Enum('FilePath' if t[0] == 'file' else 'PrefixPath', [pathbuf(cs)], 'FilePattern')
            if t[0] == 'file': sem = lambda q: zand([len(q) == len(cs)] + [a[0] == b[0] for a, b in zip(q, cs)]) if len(q) == len(cs) else z3.BoolVal(False)
            else: sem = lambda q: zand([a[0] == b[0] for a, b in zip(q, cs)]) if len(q) >= len(cs) else z3.BoolVal(False)
            return Enum('Pattern', [pat], 'FilesetExpression'), sem
        subs = [build(x) for x in t[1:]]
        if t[0] == 'union': return Enum('UnionAll', [Vec([s[0] for s in subs])], 'FilesetExpression'), (lambda q: zor([s[1](q) for s in subs]))
        if t[0] == 'inter': return Enum('Intersection', [Ref([subs[0][0]], 0), Ref([subs[1][0]], 0)], 'FilesetExpression'), (lambda q: z3.And(subs[0][1](q), subs[1][1](q)))
        return Enum('Difference', [Ref([subs[0][0]], 0), Ref([subs[1][0]], 0)], 'FilesetExpression'), (lambda q: z3.And(subs[0][1](q), z3.Not(subs[1][1](q))))
    expr, sem = build(tree)
    queries = [comps(n) for n in (1, 2, 3)]
    pre = zand([z3.And(b != 47, z3.UGE(b, 0x20), z3.ULT(b, 0x7f)) for b in syms])
    def qpath(cs):
        b = []
        for i, c in enumerate(cs):
            if i: b.append(47)
            b.extend(c)
        return Ref([Str(b)], 0)
    def run(e):
        m = e.call_mir(to_matcher, [Ref([expr], 0)])
        res = []
        for q in queries:
            res.append(e.call('<Box<dyn Matcher> as Matcher>::matches', [Ref([m], 0) if not isinstance(m, Ref) else Ref([m], 0), qpath(q)]))
        return res
    def obligations(k, out, pc, e):
        for q, r in zip(queries, out):
            yield f'to_matcher(expr).matches(path of {len(q)} components) == set semantics of expr', zbool(r) == sem(q)
    def witness(m, k, out):
        def conc(t, it):
            if t[0] in ('none', 'all'): return [t[0]]
            if t[0] in ('file', 'prefix'): return [t[0], [mval(m, next(it)) for _ in range(t[1])]]
            return [t[0]] + [conc(x, it) for x in t[1:]]
        it = iter(syms)
        tj = conc(tree, it)
        qs = [[mval(m, c[0]) for c in q] for q in queries]
        return dict(input=dict(tree=tj, queries=qs), expect=None if k != 'ok' else [bool(mval(m, r)) for r in out])
    return explore_job(ix, job['name'], run, obligations, pre=pre, witness=witness, deadline=job.get('deadline'))

def compare_native(case, native):
    if case.get('expect') is None: return ('panic' in native), 'interpreter path panicked but native run did not'
    if 'panic' in native: return False, f'native panic {native["panic"]}'
    return native.get('out') == case['expect'], f'native {native.get("out")} != symbolic {case["expect"]}'

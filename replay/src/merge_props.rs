use std::collections::BTreeMap;

use jj_lib::merge::Merge;
use jj_lib::merge::SameChange;
use jj_lib::merge::trivial_merge;
use serde_json::Value;
use serde_json::json;

use crate::ints;

fn den(vals: &[i64]) -> BTreeMap<i64, i64> {
    let mut m = BTreeMap::new();
    for (i, v) in vals.iter().enumerate() {
        *m.entry(*v).or_insert(0) += if i % 2 == 0 { 1 } else { -1 };
    }
    m.retain(|_, c| *c != 0);
    m
}

pub fn c01(case: &Value) -> Value {
    match case["op"].as_str().unwrap() {
        "simplify" => {
            let vals = ints(&case["vals"]);
            let m = Merge::from_vec(vals.clone());
            let s = m.simplify();
            let sv: Vec<i64> = s.iter().copied().collect();
            let s2: Vec<i64> = s.simplify().iter().copied().collect();
            let mut why = vec![];
            if den(&vals) != den(&sv) {
                why.push("multiplicity changed");
            }
            if sv.iter().step_by(2).any(|a| sv.iter().skip(1).step_by(2).any(|r| r == a)) {
                why.push("value is both side and base");
            }
            if s2 != sv {
                why.push("not idempotent");
            }
            if sv.len() % 2 != 1 || sv.len() > vals.len() {
                why.push("arity");
            }
            json!({"out": sv, "holds": why.is_empty(), "why": why})
        }
        "update" => {
            let vals = ints(&case["vals"]);
            let edits = ints(&case["edits"]);
            let m = Merge::from_vec(vals.clone());
            let s: Vec<i64> = m.simplify().iter().copied().collect();
            let r: Vec<i64> = m.clone().update_from_simplified(Merge::from_vec(edits.clone())).iter().copied().collect();
            let mut why = vec![];
            if r.len() != vals.len() {
                why.push("arity changed");
            }
            if den(&r) != den(&edits) {
                why.push("written-back conflict does not denote the edited one");
            }
            if edits == s && r != vals {
                why.push("unedited write-back is not the identity");
            }
            // the positions that changed must be explained by edits of surviving positions only
            let changed = r.iter().zip(&vals).filter(|(a, b)| a != b).count();
            let edited = edits.iter().zip(&s).filter(|(a, b)| a != b).count();
            if changed > edited {
                why.push("more positions changed than were edited");
            }
            json!({"out": r, "holds": why.is_empty(), "why": why})
        }
        "flatten" => {
            let nested: Vec<Vec<i64>> = case["nested"].as_array().unwrap().iter().map(ints).collect();
            let m = Merge::from_vec(nested.iter().map(|v| Merge::from_vec(v.clone())).collect::<Vec<_>>());
            let flat: Vec<i64> = m.flatten().iter().copied().collect();
            let mut expect = BTreeMap::new();
            for (k, v) in nested.iter().enumerate() {
                for (val, c) in den(v) {
                    *expect.entry(val).or_insert(0) += if k % 2 == 0 { c } else { -c };
                }
            }
            expect.retain(|_, c| *c != 0);
            let mut why = vec![];
            if den(&flat) != expect {
                why.push("multiplicity changed");
            }
            if flat.len() != nested.iter().map(|v| v.len()).sum::<usize>() {
                why.push("arity");
            }
            json!({"out": flat, "holds": why.is_empty(), "why": why})
        }
        op => json!({"error": format!("unknown op {op}")}),
    }
}

/// counting oracle for the cancellation rule, written independently of the implementation
fn c02_spec(vals: &[i64], accept: bool) -> Vec<i64> {
    // returns the set of justified results (empty = must stay unresolved)
    let d = den(vals);
    let mut ok = vec![];
    if d.len() == 1 {
        let (v, c) = d.iter().next().unwrap();
        if *c == 1 {
            ok.push(*v);
        }
    }
    if accept && ok.is_empty() {
        let pos: Vec<_> = d.iter().filter(|(_, c)| **c > 0).collect();
        let neg: Vec<_> = d.iter().filter(|(_, c)| **c < 0).collect();
        if pos.len() == 1 && neg.len() <= 1 {
            ok.push(*pos[0].0);
        }
    }
    ok
}

pub fn c02(case: &Value) -> Value {
    let vals = ints(&case["vals"]);
    let accept = case["same_change"].as_str().unwrap() == "Accept";
    let sc = if accept { SameChange::Accept } else { SameChange::Keep };
    let r = trivial_merge(&vals, sc).copied();
    let r2 = Merge::from_vec(vals.clone()).resolve_trivial(sc).copied();
    let spec = c02_spec(&vals, accept);
    let mut why = vec![];
    match r {
        Some(v) if !spec.contains(&v) => why.push("resolved to a value the cancellation rule does not justify"),
        None if !spec.is_empty() => why.push("left unresolved although the terms cancel"),
        _ => {}
    }
    if r != r2 {
        why.push("resolve_trivial differs from trivial_merge");
    }
    json!({"out": r, "holds": why.is_empty(), "why": why})
}

"""C21  Stacked tables keep every saved entry  (lib/src/stacked_table.rs; segment chain in memory)

Real code from MIR: MutableTable::{full, incremental, add_entry, add_entries_from, merge_in, serialize, maybe_squash_with_ancestors,
save_in}, ReadonlyTable::{load_from (parsing of the serialized segment), start_mutation, segment_get_value (binary search),
segment_value_by_pos, segment_add_entries_to}, ReadonlyTableIndexEntry::*, TableSegment::{get_value, num_entries} (provided methods,
dyn dispatch).
Stubs: the segment file is the in-memory buffer save_in already re-parses; Blake2b/encode_hex give each saved segment a fresh
name; NamedTempFile/persist are no-ops; TableStore::load_table(name) returns the segment saved under that name.
Symbolic: every key and value byte, the queried key.
"""
import itertools, re, z3
from mirsym.harness import *
from mirsym.engine import NONE, SOME, OK, It

ID = 'C21'
CRATES = ['jj-lib']
NATIVE = 'c21'
BOUNDS = {
    'quick': 'key size 1, values of 1 byte, all bytes symbolic; sequential saves with entry counts (1,1) (2,1) (1,2) (1,1,1) (3,1), and (3,1,1) with the three keys of the first save in ascending order (the smallest history in which a save squashes two ancestor segments); two divergent writers from a stale head with (base,A,B) = (1,1,1) (2,1,1) merged with merge_in and saved; lookups of an arbitrary key before and after each save',
    'thorough': 'adds (3,1,1) unrestricted, (2,2) (2,1,1) (1,2,1) (2,2,1) sequential, (1,2,1) (1,1,2) (2,2,1) divergent, key size 2',
}
ASSUMPTIONS = [
    'segment names are unique per saved segment (content addressing by BLAKE2b is outside); a segment read back is the buffer that was written (file system outside)',
    'head bookkeeping (heads directory, locks, get_head merging loop, gc) is file-system code and not covered: the divergent-writer scenario calls merge_in + save directly, as get_head does',
    'BTreeMap<Vec<u8>, Vec<u8>> is a sorted association list model (order by forking lexicographic comparisons)',
]
BUDGET = {'quick': 900, 'thorough': 3000}
F = 'lib/src/stacked_table.rs'

def jobs(tier):
    out = []
    seq = [(1, 1), (2, 1), (1, 2), (1, 1, 1), (3, 1)] + ([(2, 2), (2, 1, 1), (1, 2, 1), (2, 2, 1)] if tier == 'thorough' else [])
    div = [(1, 1, 1), (2, 1, 1)] + ([(1, 2, 1), (1, 1, 2), (2, 2, 1)] if tier == 'thorough' else [])
    for sh in seq: out.append(dict(name='seq-' + '_'.join(map(str, sh)), what='seq', shape=list(sh), ks=1, rung=0 if sum(sh) <= 3 else 1, weight=4 ** sum(sh), split=('enumerate', 8) if sum(sh) >= 3 else None))
    # three stacked segments squashed by the third save (2*1 < 3 keeps the second save stacked): in the quick tier with the keys of the
    # first save in ascending order (BTreeMap insertion order is immaterial), in the thorough tier without that restriction
    out.append(dict(name='seq-3_1_1' + ('-ordered' if tier == 'quick' else ''), what='seq', shape=[3, 1, 1], ks=1, rung=1, weight=4 ** 5, split=('enumerate', 8), ordered_first=(tier == 'quick')))
    for sh in div: out.append(dict(name='div-' + '_'.join(map(str, sh)), what='div', shape=list(sh), ks=1, rung=0 if sum(sh) <= 3 else 1, weight=4 ** sum(sh), split=('enumerate', 8)))
    if tier == 'thorough':
        out.append(dict(name='seq-ks2-1_1', what='seq', shape=[1, 1], ks=2, rung=2, weight=300, split=('enumerate', 8)))
    return out

def run_job(ix, job, tier):
    ks = job['ks']; shape = job['shape']
    full = ix.find_method(F, 'MutableTable', 'full'); start_mut = ix.find_method(F, 'ReadonlyTable', 'start_mutation'); add_entry = ix.find_method(F, 'MutableTable', 'add_entry')
    save_in = ix.find_method(F, 'MutableTable', 'save_in'); merge_in = ix.find_method(F, 'MutableTable', 'merge_in')
    get_value = ix.find('get_value', file=F)
    saved = {}; counter = [0]
    def load_table(e, c, a):
        name = bytes(deref(a[1]).l).decode()
        if name not in saved: raise EngineError('load_table of unknown segment ' + name)
        return OK(saved[name])
    def fresh_name(e, c, a):
        counter[0] += 1; return Vec(list(f'seg{counter[0]}'.encode()), 'String')
    over = [(re.compile(r'TableStore::load_table$'), load_table),
            (re.compile(r'Blake2b|as Digest>::|as (digest::)?Update>::|as FixedOutput>::'), lambda e, c, a: Agg([], 'digest')),
            (re.compile(r'hex_util::encode_hex|^encode_hex'), fresh_name),
            (re.compile(r'NamedTempFile::new_in'), lambda e, c, a: OK(Agg([Vec([], 'Vec')], 'NamedTempFile'))),
            (re.compile(r'NamedTempFile::as_file_mut|NamedTempFile::<.*>::as_file_mut'), lambda e, c, a: Ref(deref(a[0]).f, 0)),
            (re.compile(r'persist_content_addressed_temp_file'), lambda e, c, a: OK(Agg([], 'File')))]
    entries = []        # (writer tag, key bytes, value bytes) in write order
    def sym_entry(tag, i):
        k = [byte(f'k_{tag}{i}_{j}') for j in range(ks)]; v = [byte(f'v_{tag}{i}')]
        entries.append((tag, k, v)); return k, v
    q = [byte(f'q{j}') for j in range(ks)]
    def lookup(e, table_ref):
        r = e.call_mir(get_value, [table_ref, SliceRef(list(q))])
        return None if r.v == 'None' else list(e.bl(r.f[0])[0][e.bl(r.f[0])[1]:e.bl(r.f[0])[2]])
    def save(e, store, mt):
        r = e.call_mir(save_in, [mt, Ref([store], 0)])
        if r.v != 'Ok': raise EngineError('save_in failed')
        t = r.f[0]; saved[bytes(deref(t).f[struct_fields(ix, F, 'ReadonlyTable').index('name')].l).decode()] = t
        return t
    plan = []
    if job['what'] == 'seq':
        for si, n in enumerate(shape): plan.append([sym_entry(f's{si}', i) for i in range(n)])
    else:
        plan = [[sym_entry('base', i) for i in range(shape[0])], [sym_entry('a', i) for i in range(shape[1])], [sym_entry('b', i) for i in range(shape[2])]]
    def run(e):
        saved.clear(); counter[0] = 0
        store = mk_struct(ix, F, 'TableStore', dir=Vec(list(b'd'), 'PathBuf'), key_size=ks)
        obs = []
        def write(mt, ents):
            for k, v in ents: e.call_mir(add_entry, [Ref([mt], 0), Vec(list(k), 'Vec'), Vec(list(v), 'Vec')])
        if job['what'] == 'seq':
            head = None
            for si, ents in enumerate(plan):
                mt = e.call_mir(full, [ks]) if head is None else e.call_mir(start_mut, [Ref([head], 0)])
                write(mt, ents)
                before = lookup(e, Ref([mt], 0))
                head = save(e, store, mt)
                obs.append(('seq', si, before, lookup(e, head)))
            return obs
        mt = e.call_mir(full, [ks]); write(mt, plan[0]); base = save(e, store, mt)
        ma = e.call_mir(start_mut, [Ref([base], 0)]); write(ma, plan[1]); ta = save(e, store, ma)
        mb = e.call_mir(start_mut, [Ref([base], 0)]); write(mb, plan[2]); tb = save(e, store, mb)
        mm = e.call_mir(start_mut, [Ref([tb], 0)]); e.call_mir(merge_in, [Ref([mm], 0), Ref([ta], 0)])
        before = lookup(e, Ref([mm], 0)); merged = save(e, store, mm)
        return [('div', 0, before, lookup(e, merged)), ('a', 0, None, lookup(e, ta)), ('b', 0, None, lookup(e, tb))]
    def keq(k): return zand([a == b for a, b in zip(k, q)])
    def val_is(res, v): return zand([zbool(len(res) == len(v))] + [a == b for a, b in zip(res, v)]) if len(res) == len(v) else z3.BoolVal(False)
    def last_writer(res, ents):
        """res is the lookup result for q after the writes `ents` (in order): last write of an equal key wins"""
        if res is None: return zand([z3.Not(keq(k)) for _, k, v in ents])
        return zor([z3.And(keq(k), val_is(res, v), *[z3.Not(keq(k2)) for _, k2, _ in ents[i + 1:]]) for i, (_, k, v) in enumerate(ents)])
    def some_writer(res, ents):
        if res is None: return zand([z3.Not(keq(k)) for _, k, v in ents])
        return zor([z3.And(keq(k), val_is(res, v)) for _, k, v in ents])
    def obligations(kind, obs, pc, e):
        for what, si, before, after in obs:
            if what == 'seq':
                upto = [en for en in entries if int(en[0][1:]) <= si]
                yield f'after save {si}: lookup = last sequential write of that key (or absent if never written)', last_writer(after, upto)
                yield f'save {si} (squash + serialize + reload) does not change the lookup', (zbool((before is None) == (after is None)) if before is None or after is None else val_is(after, before))
            elif what == 'div':
                yield 'merged head: every saved key is present with one of the values saved for it; unsaved keys are absent', some_writer(after, entries)
                base_a = [en for en in entries if en[0].startswith('base')] ; 
                yield 'saving the merged table does not change the lookup', (zbool((before is None) == (after is None)) if before is None or after is None else val_is(after, before))
            else:
                mine = [en for en in entries if en[0].startswith('base') or en[0].startswith(what)]
                yield f'writer {what} sees its own writes on top of the stale head', last_writer(after, mine)
    def witness(m, k, obs):
        inp = dict(what=job['what'], ks=ks, plan=[[[[mval(m, b) for b in kk], [mval(m, b) for b in vv]] for kk, vv in ents] for ents in plan], q=[mval(m, b) for b in q])
        exp = None if k != 'ok' else [[o[0], (None if o[3] is None else [mval(m, b) for b in o[3]])] for o in obs]
        return dict(input=inp, expect=exp)
    pre = None
    if job.get('ordered_first'):
        first = [k for tag, k, v in entries if tag == 's0']
        pre = zand([z3.ULT(a[0], b[0]) for a, b in zip(first, first[1:])])
    return explore_job(ix, job['name'], run, obligations, overrides=over, witness=witness, deadline=job.get('deadline'), split=job.get('split'), pre=pre)

def compare_native(case, native):
    if case.get('expect') is None: return ('panic' in native), 'interpreter path panicked but native run did not'
    if 'panic' in native: return False, f'native panic {native["panic"]}'
    return native.get('out') == case['expect'], f'native {native.get("out")} != symbolic {case["expect"]}'

"""C05  Materialized conflicts parse back to the same conflict  (lib/src/conflicts.rs + files.rs + core diff)

Real code from MIR: materialize_merge_result_to_bytes -> files::merge_hunks, choose_materialized_conflict_marker_len, detect_eol,
materialize_conflict_hunks, build_hunk_sides, materialize_{git,jj}_style_conflict, write_conflict_marker, write_diff_hunks;
parse_conflict -> parse_conflict_marker(_any_len), parse_conflict_hunk, parse_{jj,git}_style_conflict_hunk.
Symbolic: content bytes (free bytes; runs of 7 copies of one symbolic byte = marker look-alike lines).
"""
import itertools, re, z3
from mirsym.harness import *
from mirsym.engine import NONE, SOME, It

ID = 'C05'
CRATES = ['jj-lib', 'jj-core']
NATIVE = 'c05'
BOUNDS = {
    'quick': '2-sided conflicts (3 terms), every marker style (diff, diff-experimental, snapshot, git), unlabeled and labeled; each term one line of one symbolic byte (LF / no final newline on a side / CRLF files / an empty side); one term a run of 6 or 7 copies of a symbolic byte (marker look-alike, also one shorter than the minimum marker length); per job at most ONE symbolic byte is unconstrained (any value except CR/LF), the others are any non-marker non-whitespace byte; the no-final-newline / empty-side / CRLF shapes only with all bytes plain in the quick tier',
    'thorough': 'adds two-line terms and 3-sided conflicts (5 terms) for snapshot and diff styles',
}
ASSUMPTIONS = [
    'merge options: line-level hunks, same-change accepted (the defaults); marker length chosen by choose_materialized_conflict_marker_len (options.marker_len = None)',
    'labels are short ASCII strings without newline',
    'the round trip is claimed only when merge_hunks() reports a conflict (a resolved merge materializes to its content, which is checked instead)',
    'fmt machinery is executed through the decoded template byte-code of the pinned nightly; Display of str/String/BString/integers only',
]
BUDGET = {'quick': 900, 'thorough': 3000}
F = 'lib/src/conflicts.rs'
STYLES = ['Diff', 'DiffExperimental', 'Snapshot', 'Git']

def jobs(tier):
    out = []
    B = ('b', 1, 'lf'); BX = ('b', 1, 'none'); BC = ('b', 1, 'crlf'); R = ('run', 7, 'lf'); E = None
    R6 = ('run', 6, 'lf')
    shapes = [([B], [B], [B]), ([BX], [B], [B]), ([B], [B], [BX]), ([], [B], [B]), ([B], [], [B]), ([BC], [BC], [BC]), ([R], [B], [B]), ([B], [R], [B]), ([B], [B], [R]),
              ([R6], [B], [B]), ([B], [R6], [B]), ([B], [B], [R6])]
    if tier == 'thorough':
        shapes += [([B, B], [B], [B]), ([B], [B, B], [B, B]), ([BX], [BX], [BX]), ([B], [B], [B], [B], [B])]
    for si, sh in enumerate(shapes):
        nsym = sum(1 for t in sh for _ in t)
        for style in STYLES:
            for lab in (False, True):
                if lab and si not in (0, 1): continue
                for free in [None] + list(range(nsym)):
                    runs = [k for k, kind in enumerate(kk for t in sh for kk in t) if kind[0] == 'run']
                    if runs and free not in runs: continue                  # a look-alike run is the unconstrained symbol of its job
                    name = 'rt-' + '_'.join(''.join(f'{k[0]}{k[1]}{k[2][0]}' for k in t) or 'e' for t in sh) + f'-{style}' + ('-labels' if lab else '') + (f'-free{free}' if free is not None else '-plain')
                    in_quick = si == 0 or bool(runs) or (si in (1, 2, 3, 5) and free is None)
                    if tier == 'quick' and not in_quick: continue
                    out.append(dict(name=name, shape=[list(t) for t in sh], style=style, labels=lab, free=free, rung=0 if si == 0 else (1 if (runs or free is None) else 2), weight=3 + (30 if free is not None else 0)))
    return out

def run_job(ix, job, tier):
    shape, style = job['shape'], job['style']
    mat = ix.find('materialize_merge_result_to_bytes', file=F); parse = ix.find('parse_conflict', file=F)
    choose = ix.find('choose_materialized_conflict_marker_len', file=F); merge_hunks = ix.find('merge_hunks', file='lib/src/files.rs')
    inputs = []; syms = []
    for i, lines in enumerate(shape):
        bs = []
        for j, (kind, n, eol) in enumerate(lines):
            if kind == 'b':
                b = byte(f'b{i}_{j}'); syms.append(b); bs += [b] * n
            else:
                b = byte(f'r{i}_{j}'); syms.append(b); bs += [b] * n
            bs += {'lf': [10], 'crlf': [13, 10], 'none': []}[eol]
        inputs.append(bs)
    MARK = [ord(ch) for ch in '<>+-%\\|=']
    def plain(b): return z3.And(*[b != v for v in MARK + [9, 10, 11, 12, 13, 32]])
    pre = zand([z3.And(b != 10, b != 13) if k == job.get('free') else plain(b) for k, b in enumerate(syms)])
    n = len(inputs); num_sides = (n + 1) // 2
    def run(e):
        m = mk_merge([Vec(list(bs), 'BString') for bs in inputs])
        labels = mk_struct(ix, 'lib/src/conflict_labels.rs', 'ConflictLabels', labels=(mk_merge([Vec(list(f'L{i}'.encode()), 'String') for i in range(n)]) if job['labels'] else mk_merge([Vec([], 'String')])))
        mopts = mk_struct(ix, 'lib/src/tree_merge.rs', 'MergeOptions', hunk_level=Enum('Line', ty='FileMergeHunkLevel'), same_change=Enum('Accept', ty='SameChange'))
        opts = mk_struct(ix, F, 'ConflictMaterializeOptions', marker_style=Enum(style, ty='ConflictMarkerStyle'), marker_len=NONE(), merge=mopts)
        out = e.call_mir(mat, [Ref([m], 0), Ref([labels], 0), Ref([opts], 0)], targs=['BString'])
        ob = list(e.bl(out)[0])
        mr = e.call_mir(merge_hunks, [Ref([m], 0), Ref([mopts], 0)], targs=['BString'])
        if mr.v == 'Resolved': return ('resolved', ob, list(e.bl(mr.f[0])[0]))
        hunks = [[list(e.bl(t)[0]) for t in merge_vals(h)] for h in mr.f[0].l]
        mlen = e.call_mir(choose, [Ref([m], 0)], targs=['BString'])
        parsed = e.call_mir(parse, [SliceRef(list(ob)), num_sides, mlen])
        if parsed.v == 'None': return ('conflict', ob, hunks, None)
        return ('conflict', ob, hunks, [[list(e.bl(t)[0]) for t in merge_vals(h)] for h in parsed.f[0].l])
    def beq(a, b):
        if len(a) != len(b): return z3.BoolVal(False)
        cs = []
        for x, y in zip(a, b):
            if isinstance(x, int) and isinstance(y, int):
                if x != y: return z3.BoolVal(False)
            else: cs.append(x == y)
        return zand(cs)
    def obligations(k, out, pc, e):
        if out[0] == 'resolved':
            yield 'a merge without conflict materializes to its content', beq(out[1], out[2])
            return
        _, ob, hunks, parsed = out
        yield 'materialized conflict parses back (same arity and marker length)', parsed is not None
        if parsed is None: return
        yield 'parsing gives back the same number of hunks', len(parsed) == len(hunks)
        if len(parsed) != len(hunks): return
        yield 'every hunk parses back term for term, byte for byte', zand([zbool(len(p) == len(h)) for p, h in zip(parsed, hunks)] + [beq(a, b) for p, h in zip(parsed, hunks) if len(p) == len(h) for a, b in zip(p, h)])
    def witness(m, k, out):
        inp = dict(terms=[[mval(m, b) for b in bs] for bs in inputs], style=style, labels=job['labels'])
        return dict(input=inp, expect=None if k != 'ok' else dict(materialized=[mval(m, b) for b in out[1]]))
    def hook(e): e.max_orders = 6
    return explore_job(ix, job['name'], run, obligations, pre=pre, witness=witness, deadline=job.get('deadline'), split=job.get('split'), engine_hook=hook)

def compare_native(case, native):
    if case.get('expect') is None: return ('panic' in native), 'interpreter path panicked but native run did not'
    if 'panic' in native: return False, f'native panic {native["panic"]}'
    return native.get('out') == case['expect']['materialized'], f'native {bytes(native.get("out") or [])!r} != symbolic {bytes(case["expect"]["materialized"])!r}'

"""C32  Workspace path conversion is lossless and confined  (lib/src/repo_path.rs)

Real code from MIR: RepoPathBuf::from_relative_path (+ closure), RepoPath::to_fs_path, RepoPathComponent::to_fs_name,
RepoPathComponentsIter, RepoPath::from_internal_string / is_valid_repo_path_str.
std::path is a byte-string *model* of the documented unix behaviour of Path::components()/PathBuf::push (see models4.register_path);
an independent Kani harness (kani/src/lib.rs: c32_to_fs_name_3) checks to_fs_name against the real std::path for all ASCII
components of <= 3 bytes and is run by the thorough tier.
Symbolic: every byte of the file-system path / repository path (ASCII), length forked over the bound.
"""
import z3
from mirsym.harness import *
from mirsym.engine import NONE, SOME

ID = 'C32'
TECHNIQUE = 'symbolic execution of rustc MIR (path-forking) + z3 SMT queries per path over a byte-string model of std::path (unix) validated per path against the compiled code; counterexamples replayed natively; thorough tier adds a Kani/CBMC harness for to_fs_name'
CRATES = ['jj-lib']
NATIVE = 'c32'
KANI = ['c32_to_fs_name_3']
BOUNDS = {
    'quick': 'from_relative_path: every ASCII path string of 0..5 bytes (unix); to_fs_path / round trip: every valid repository path of 0..5 bytes, base in {"", "w"}',
    'thorough': 'paths of 0..7 bytes; plus Kani: RepoPathComponent::to_fs_name over every ASCII component of <=3 bytes against the real std::path',
}
ASSUMPTIONS = [
    'unix path semantics; std::path::{Path::components, PathBuf::push, Path ==} are byte-string models of their documented behaviour (validated per path against the compiled code by the native runner)',
    'ASCII bytes only, no NUL; parse_fs_path / normalize_path (cwd-relative resolution, file_util) are not covered',
]
BUDGET = {'quick': 900, 'thorough': 3000}
F = 'lib/src/repo_path.rs'

def jobs(tier):
    n = 5 if tier == 'quick' else 7
    out = []
    for l in range(0, n + 1):
        out.append(dict(name=f'from_relative_path-len{l}', what='from', l=l, rung=0 if l <= 4 else l, weight=3 ** l, split=('enumerate', 8) if l >= 5 else None))
        for base in ('', 'w'):
            out.append(dict(name=f'to_fs_path-len{l}-base{base or "0"}', what='to', l=l, base=base, rung=0 if l <= 4 else l, weight=3 ** l, split=('enumerate', 8) if l >= 5 else None))
    return out

def comps_of(bs):
    """split concrete-length symbolic byte list on '/' given the path condition decides the separators: returns formula-free structure only when bytes are decided; here we build formulas instead"""
    raise NotImplementedError

def run_job(ix, job, tier):
    l = job['l']; p = [byte(f'p{i}') for i in range(l)]
    pre = zand([z3.And(z3.UGT(b, 0), z3.ULT(b, 0x80)) for b in p])
    from_rel = ix.find_method(F, 'RepoPathBuf', 'from_relative_path'); to_fs = ix.find_method(F, 'RepoPath', 'to_fs_path')
    SL, DOT = 47, 46
    def is_sep(i): return p[i] == SL
    def bad_component_exists(bs):
        """formula: the '/'-separated string has an empty, '.' or '..' component (empty string = root = no components)"""
        n = len(bs)
        if n == 0: return z3.BoolVal(False)
        cs = [bs[0] == SL, bs[-1] == SL] + [z3.And(bs[i] == SL, bs[i + 1] == SL) for i in range(n - 1)]
        for i in range(n):
            for k in (1, 2):
                if i + k <= n:
                    left = z3.BoolVal(True) if i == 0 else bs[i - 1] == SL
                    right = z3.BoolVal(True) if i + k == n else bs[i + k] == SL
                    cs.append(z3.And(left, right, *[bs[i + t] == DOT for t in range(k)]))
        return zor(cs)
    if job['what'] == 'from':
        def run(e):
            r = e.call_mir(from_rel, [Ref([Str(list(p))], 0)], targs=['&Path'])
            if r.v != 'Ok': return ('err',)
            rb = list(e.bl(r.f[0])[0])
            back = e.call_mir(to_fs, [Ref([Str(rb)], 0), Ref([Str([])], 0)])
            fb = list(e.bl(back.f[0])[0]) if back.v == 'Ok' else None
            again = None
            if fb is not None:
                r2 = e.call_mir(from_rel, [Ref([Str(fb)], 0)], targs=['&Path'])
                again = list(e.bl(r2.f[0])[0]) if r2.v == 'Ok' else 'err'
            return ('ok', rb, fb, again)
        def obligations(k, out, pc, e):
            if out[0] == 'err': return
            _, rb, fb, again = out
            yield 'a parsed repository path has no empty, "." or ".." component', z3.Not(bad_component_exists(rb))
            yield 'a parsed repository path converts back to a file-system path', fb is not None
            if fb is not None:
                yield 'fs -> repo -> fs -> repo is stable (round trip)', again != 'err' and again is not None and len(again) == len(rb) and True
                if again not in (None, 'err') and len(again) == len(rb):
                    yield 'round trip gives the same repository path', zand([a == b for a, b in zip(again, rb) if not (isinstance(a, int) and isinstance(b, int) and a == b)])
        def witness(m, k, out):
            inp = dict(op='from', path=[mval(m, b) for b in p])
            return dict(input=inp, expect=None if k != 'ok' else (None if out[0] == 'err' else [mval(m, b) for b in out[1]]))
        return explore_job(ix, job['name'], run, obligations, pre=pre, witness=witness, deadline=job.get('deadline'), split=job.get('split'))
    base = [ord(ch) for ch in job['base']]
    valid = z3.And(pre, z3.Not(zor(([p[0] == SL, p[-1] == SL] if l else []) + [z3.And(p[i] == SL, p[i + 1] == SL) for i in range(l - 1)])))     # is_valid_repo_path_str
    def run(e):
        r = e.call_mir(to_fs, [Ref([Str(list(p))], 0), Ref([Str(list(base))], 0)])
        if r.v != 'Ok': return ('err',)
        fb = list(e.bl(r.f[0])[0])
        comps = e.path_components(fb)
        back = None
        if not base:
            r2 = e.call_mir(from_rel, [Ref([Str(list(fb))], 0)], targs=['&Path'])
            back = list(e.bl(r2.f[0])[0]) if r2.v == 'Ok' else 'err'
        return ('ok', fb, [c.v for c in comps], back)
    def obligations(k, out, pc, e):
        if out[0] == 'err':
            yield 'only repository paths with a "." or ".." component are refused', bad_component_exists(p)
            return
        _, fb, kinds, back = out
        yield 'accepted repository paths have no "." or ".." component', z3.Not(bad_component_exists(p)) if l else z3.BoolVal(True)
        nb = 1 if base else 0
        yield 'the file-system path stays below the base: base first, then only normal components', (kinds[:nb] == ['Normal'] * nb and all(x == 'Normal' for x in kinds[nb:])) or (not base and l == 0 and kinds == ['CurDir'])
        expect = base + ([SL] if base and l else []) + list(p) if (base or l) else [DOT]
        yield 'the file-system path is base joined with the repository path', zand([zbool(len(fb) == len(expect))] + [a == b for a, b in zip(fb, expect) if not (isinstance(a, int) and isinstance(b, int) and a == b)]) if len(fb) == len(expect) else False
        if back is not None:
            yield 'repo -> fs -> repo gives the same path', (back != 'err' and len(back) == l and True)
            if back != 'err' and len(back) == l: yield 'repo -> fs -> repo bytes equal', zand([a == b for a, b in zip(back, p)])
    def witness(m, k, out):
        inp = dict(op='to', path=[mval(m, b) for b in p], base=job['base'])
        return dict(input=inp, expect=None if k != 'ok' else (None if out[0] == 'err' else [mval(m, b) for b in out[1]]))
    return explore_job(ix, job['name'], run, obligations, pre=valid, witness=witness, deadline=job.get('deadline'), split=job.get('split'))

def compare_native(case, native):
    if 'panic' in native: return False, f'native panic {native["panic"]}'
    return native.get('out') == case['expect'], f'native {native.get("out")} != symbolic {case["expect"]}'

"""C29  Line-ending conversion round-trips normalized content  (lib/src/eol.rs)

Real code from MIR: is_binary, TargetEolStrategy::{probe_for_binary, convert_eol_for_snapshot, convert_eol_for_update} (async),
convert_eol (async) + trim_last_eol.  AsyncRead plumbing (Cursor/take/chain/read_to_end) is a byte-list model.
Symbolic: every content byte (length forked over the bound).  The 8 KiB probe limit is a constant of the code: contents shorter
than it are covered with the real constant; the *boundary logic* is covered by re-running with the constant overridden to 4
("modified constant" jobs, reported separately) and, in the thorough tier, at the real constant with concrete padding and a
symbolic window straddling offset 8191/8192.
"""
import re, z3
from mirsym.harness import *
from mirsym.engine import NONE, SOME, OK, Coro

ID = 'C29'
TECHNIQUE = 'symbolic execution of rustc MIR (path-forking) + z3 SMT queries per path incl. modified-constant jobs (PROBE_LIMIT := 4); violations reported on the solver verdict (module is pub(crate))'
CRATES = ['jj-lib']
NATIVE = None
NATIVE_CONFIRM = False     # eol.rs is pub(crate): no public entry point for a native runner
BOUNDS = {
    'quick': 'real PROBE_LIMIT: every content of 0..4 bytes (all byte values) in modes None/Input/InputOutput; PROBE_LIMIT overridden to 4: every content of 0..6 bytes (boundary logic)',
    'thorough': 'real PROBE_LIMIT: contents of 0..7 bytes; PROBE_LIMIT:=4: contents of 0..9 bytes; real constant with 8190..8194 bytes, all "a" except a 2-byte symbolic window at offsets 8191..8192',
}
ASSUMPTIONS = [
    '"stored with LF line endings" = the stored content contains no CR LF pair',
    'AsyncRead sources never fail and deliver all bytes (Cursor semantics); take/chain/read_to_end are byte-list models',
    'the classification rule itself (NUL or lone CR within the probed prefix = binary) is the documented behaviour; the oracle only uses its unambiguous cases: a NUL/lone CR strictly before offset PROBE_LIMIT-1 is binary, content without NUL and without lone CR is text',
    'jobs named "pl4" run the same MIR with the constant PROBE_LIMIT replaced by 4 (modified constant): they cover the boundary arithmetic, not the value 8192',
]
BUDGET = {'quick': 900, 'thorough': 3000}
F = 'lib/src/eol.rs'

def jobs(tier):
    out = []
    n_real, n_pl4 = (5, 6) if tier == 'quick' else (7, 9)
    for n in range(0, n_real + 1):
        for what in ('roundtrip', 'snapshot', 'modes'):
            out.append(dict(name=f'{what}-len{n}', what=what, n=n, pl=None, rung=0 if n <= 3 else n, weight=4 ** n))
    for n in range(0, n_pl4 + 1):
        for what in ('roundtrip', 'snapshot'):
            out.append(dict(name=f'{what}-pl4-len{n}', what=what, n=n, pl=4, rung=0 if n <= 3 else n, weight=4 ** n))
    if tier == 'thorough':
        for n in (8190, 8191, 8192, 8193, 8194):
            out.append(dict(name=f'roundtrip-real-boundary-len{n}', what='roundtrip', n=n, pl=None, window=(8191, 8193), rung=100, weight=10 ** 6))
    return out

def crlf_of(D, S):
    """formula: D == S with every LF replaced by CR LF"""
    memo = {}
    def go(i, j):
        if (i, j) in memo: return memo[(i, j)]
        if j == len(S): r = z3.BoolVal(i == len(D))
        else:
            a = z3.And(D[i] == 13, D[i + 1] == 10, go(i + 2, j + 1)) if i + 1 < len(D) else z3.BoolVal(False)
            b = z3.And(D[i] == S[j], go(i + 1, j + 1)) if i < len(D) else z3.BoolVal(False)
            r = z3.If(S[j] == 10, a, b)
        memo[(i, j)] = r; return r
    return go(0, 0)

def lf_of(O, D):
    """formula: O == D with every CR LF replaced by LF"""
    memo = {}
    def go(i, j):
        if (i, j) in memo: return memo[(i, j)]
        if j == len(D): r = z3.BoolVal(i == len(O))
        else:
            pair = z3.And(D[j] == 13, D[j + 1] == 10) if j + 1 < len(D) else z3.BoolVal(False)
            a = z3.And(O[i] == 10, go(i + 1, j + 2)) if i < len(O) and j + 1 < len(D) else z3.BoolVal(False)
            b = z3.And(O[i] == D[j], go(i + 1, j + 1)) if i < len(O) else z3.BoolVal(False)
            r = z3.If(pair, a, b)
        memo[(i, j)] = r; return r
    return go(0, 0)

def same(A, B):
    if len(A) != len(B): return z3.BoolVal(False)
    return zand([a == b for a, b in zip(A, B) if not (isinstance(a, int) and isinstance(b, int) and a == b)] + [False for a, b in zip(A, B) if isinstance(a, int) and isinstance(b, int) and a != b])

def run_job(ix, job, tier):
    n, pl = job['n'], job['pl']; PL = pl or 8192
    upd = ix.find_method(F, 'TargetEolStrategy', 'convert_eol_for_update'); snap = ix.find_method(F, 'TargetEolStrategy', 'convert_eol_for_snapshot')
    if 'window' in job:
        lo, hi = job['window']; S = [byte(f's{i}') if lo <= i < hi and i < n else 97 for i in range(n)]
    else: S = [byte(f's{i}') for i in range(n)]
    syms = [b for b in S if not isinstance(b, int)]
    def hook(e):
        if pl: e.const_overrides['PROBE_LIMIT'] = pl
    def conv(e, fn, mode, data):
        strat = Agg([Enum(mode, ty='EolConversionMode')], 'TargetEolStrategy')
        coro = e.call_mir(fn, [Ref([strat], 0), e.ReaderM('cursor', data=list(data), pos=0)])
        r = e.poll(coro)
        if r.v != 'Ok': raise EngineError('conversion returned Err')
        return e.rd(r.f[0]).read_all()
    no_crlf = zand([z3.Not(z3.And(a == 13, b == 10)) for a, b in zip(S, S[1:])])
    def lone_cr(X, i): return z3.And(X[i] == 13, (X[i + 1] != 10) if i + 1 < len(X) else True)
    def clearly_binary(X): return zor([z3.Or(X[i] == 0, lone_cr(X, i)) for i in range(min(len(X), PL - 1))])
    def clearly_text(X): return zand([z3.And(X[i] != 0, z3.Not(lone_cr(X, i))) for i in range(len(X))])
    what = job['what']
    if what == 'roundtrip':
        def run(e):
            D = conv(e, upd, 'InputOutput', S); S2 = conv(e, snap, 'InputOutput', D)
            return D, S2
        def obligations(k, out, pc, e):
            D, S2 = out
            yield 'snapshot(update(stored)) == stored', same(S2, S)
            yield 'text stored with LF is written with CRLF', z3.Implies(clearly_text(S), crlf_of(D, S))
            yield 'binary content is written verbatim', z3.Implies(clearly_binary(S), same(D, S))
            yield 'checkout writes either the stored bytes or their CRLF form', z3.Or(same(D, S), crlf_of(D, S))
        pre = no_crlf
    elif what == 'snapshot':
        def run(e):
            mode = ('Input', 'InputOutput')[e.choose(2)]
            return conv(e, snap, mode, S)
        def obligations(k, O, pc, e):
            yield 'text with CRLF is snapshotted with LF', z3.Implies(clearly_text(S), lf_of(O, S))
            yield 'binary content is snapshotted verbatim', z3.Implies(clearly_binary(S), same(O, S))
            yield 'snapshot stores either the disk bytes or their LF form', z3.Or(same(O, S), lf_of(O, S))
        pre = None
    else:
        def run(e):
            return conv(e, upd, 'Input', S), conv(e, upd, 'None', S), conv(e, snap, 'None', S)
        def obligations(k, out, pc, e):
            yield 'input-only conversion: checkout writes stored bytes verbatim', same(out[0], S)
            yield 'no conversion: checkout verbatim', same(out[1], S)
            yield 'no conversion: snapshot verbatim', same(out[2], S)
        pre = None
    def sample(k, out, pc):
        return dict(job=job['name'], path_condition=[str(c)[:100] for c in pc[:10]], out=short(out, 200))
    return explore_job(ix, job['name'], run, obligations, pre=pre, engine_hook=hook, sample=sample, deadline=job.get('deadline'))

def compare_native(case, native): return True, ''

"""C30  Matcher directory pruning is sound  (lib/src/matchers.rs)

Combinators (Union/Intersection/Difference): one inductive step with *symbolic sub-matchers*.  Fix an arbitrary
directory d and an arbitrary path p below it (first component below d is `c`; `direct` says whether p is the file d/c or lies
below the directory d/c).  The stubs M1, M2 answer visit(d) with an arbitrary Visit value and matches(p) with an arbitrary
bool, constrained only by soundness of each input w.r.t. p.  The real visit()/matches() of the combinator (MIR) must then be
sound w.r.t. p.  Because d, p, M1, M2 are arbitrary this covers every nesting of combinators over any sound leaves.

Leaves (FilesMatcher, PrefixMatcher): built by the real constructors (RepoPathTree::add) from paths whose component bytes are
symbolic; soundness of visit(d) w.r.t. matches(p) for every d, p in the bound.
"""
import itertools, re, z3
from mirsym.harness import *
from mirsym.engine import NONE, SOME, It

ID = 'C30'
CRATES = ['jj-lib']
NATIVE = 'c30'
BOUNDS = {
    'quick': 'combinators: every pair of sub-matcher answers (Visit in {AllRecursively, Nothing, Specific{dirs: All|Set, files: All|Set}} with sets over a 2-component universe containing the probe component), every matches() pair, direct/indirect probe; '
             'leaves: FilesMatcher/PrefixMatcher from <=2 paths of <=2 one-byte components (bytes symbolic), every directory of depth<=2 and probe path of depth<=3',
    'thorough': 'combinators as quick with a 3-component universe; leaves from <=3 paths of <=3 components, directories of depth<=3, probes of depth<=4',
}
ASSUMPTIONS = [
    'sub-matchers of a combinator are arbitrary but sound w.r.t. the probe path (inductive hypothesis); Matcher::visit/matches of a sub-matcher are deterministic (same answer when asked twice)',
    'HashSet modelled as a list without duplicates, iteration order arbitrary (all permutations explored where the code iterates)',
    'GlobsMatcher is not covered: its decisions are made by regex::bytes::RegexSet (outside the encodable code)',
    'leaf paths: components are single printable-ASCII non-"/" bytes (component contents beyond equality do not influence the tree code)',
]
BUDGET = {'quick': 900, 'thorough': 2400}
F = 'lib/src/matchers.rs'

def jobs(tier):
    out = []
    for kind in ('Union', 'Intersection', 'Difference'):
        out.append(dict(name=f'comb-{kind}', what='comb', kind=kind, universe=2 if tier == 'quick' else 3, rung=0, weight=100))
    maxp, maxc, maxd, maxe = (2, 2, 2, 1) if tier == 'quick' else (3, 3, 3, 1)
    for kind in ('Files', 'Prefix'):
        for npaths in range(0, maxp + 1):
            for shape in itertools.combinations_with_replacement(range(0 if kind == 'Prefix' else 1, maxc + 1), npaths):
                for dd in range(0, maxd + 1):
                    for extra in range(0, maxe + 1):
                        w = sum(shape) + dd + extra
                        out.append(dict(name=f'leaf-{kind}-' + '_'.join(map(str, shape)) + f'-d{dd}-x{extra}', what='leaf', kind=kind, shape=list(shape), ddepth=dd, extra=extra,
                                        rung=1 if w <= 5 else 2, weight=3 ** w))
    return out

def run_job(ix, job, tier):
    if job['what'] == 'comb': return job_comb(ix, job)
    return job_leaf(ix, job)

def visit_sound(v, m, direct, c='c'):
    """z3 formula: Visit value v is sound for a probe path whose matches() is m"""
    if v.v == 'Nothing': return z3.Not(m)
    if v.v == 'AllRecursively': return m
    dirs, files = v.f
    in_files = z3.BoolVal(files.v == 'All' or c in files.f[0].l)
    in_dirs = z3.BoolVal(dirs.v == 'All' or c in dirs.f[0].l)
    return z3.Implies(m, z3.If(direct, in_files, in_dirs))

def job_comb(ix, job):
    kind = job['kind']; U = ['c', 'd', 'e'][:job['universe']]
    visit_fn = ix.find_method(F, kind + 'Matcher', 'visit', trait='Matcher'); matches_fn = ix.find_method(F, kind + 'Matcher', 'matches', trait='Matcher')
    m1, m2, direct = z3.Bool('m1'), z3.Bool('m2'), z3.Bool('direct')
    state = {}
    def gen_visit(e):
        k = e.choose(6)
        def gen_set():
            sub = e.choose(2 ** len(U)); return Vec([x for i, x in enumerate(U) if sub >> i & 1], 'HashSet')
        if k == 0: return Enum('AllRecursively', [], 'Visit')
        if k == 1: return Enum('Nothing', [], 'Visit')
        dirs = Enum('All', [], 'VisitDirs') if k in (2, 3) else Enum('Set', [gen_set()], 'VisitDirs')
        files = Enum('All', [], 'VisitFiles') if k in (2, 4) else Enum('Set', [gen_set()], 'VisitFiles')
        return Enum('Specific', [dirs, files], 'Visit')
    def clone_visit(v):
        if v.v != 'Specific': return Enum(v.v, [], 'Visit')
        return Enum('Specific', [Enum(x.v, [Vec(list(x.f[0].l), 'HashSet')] if x.f else [], x.ty) for x in v.f], 'Visit')
    def stub_visit(e, c, args):
        who = deref(args[0]).f[0]
        if who not in state:
            v = gen_visit(e); state[who] = v
            e.assume(visit_sound(v, m1 if who == 1 else m2, direct))
        return clone_visit(state[who])
    def stub_matches(e, c, args):
        return m1 if deref(args[0]).f[0] == 1 else m2
    over = [(re.compile(r'<M[12] as Matcher>::visit'), stub_visit), (re.compile(r'<M[12] as Matcher>::matches'), stub_matches)]
    def run(e):
        state.clear()
        self_ = Agg([Agg([1], 'Stub'), Agg([2], 'Stub')], kind + 'Matcher')
        v = e.call_mir(visit_fn, [Ref([self_], 0), Ref(['DIR'], 0)])
        m = e.call_mir(matches_fn, [Ref([self_], 0), Ref(['PROBE'], 0)])
        return v, m, {k: clone_visit(x) for k, x in state.items()}
    def obligations(k, out, pc, e):
        v, m, _ = out
        yield f'{kind}Matcher::visit is sound w.r.t. {kind}Matcher::matches for the probe path', visit_sound(v, zbool(m), direct)
        spec = {'Union': z3.Or(m1, m2), 'Intersection': z3.And(m1, m2), 'Difference': z3.And(m1, z3.Not(m2))}[kind]
        yield f'{kind}Matcher::matches is the set operation on the inputs', zbool(m) == spec
    def sample(k, out, pc):
        return dict(job=job['name'], sub_matcher_answers={str(k_): short(x, 120) for k_, x in out[2].items()}, visit=short(out[0], 160), matches=str(out[1]),
                    path_condition=[str(c)[:120] for c in pc[:6]])
    return explore_job(ix, job['name'], run, obligations, overrides=over, sample=sample, deadline=job.get('deadline'))

def mk_path(comps):
    """RepoPath value (a str wrapper): components joined by '/'"""
    b = []
    for i, c in enumerate(comps):
        if i: b.append(47)
        b.extend(c)
    return Ref([Str(b)], 0)

def job_leaf(ix, job):
    kind = job['kind']; shape = job['shape']; dd, extra = job['ddepth'], job['extra']
    new_fn = ix.find_method(F, kind + 'Matcher', 'new'); visit_fn = ix.find_method(F, kind + 'Matcher', 'visit', trait='Matcher')
    matches_fn = ix.find_method(F, kind + 'Matcher', 'matches', trait='Matcher')
    syms = []
    def comp(name):
        b = byte(name); syms.append(b); return [b]
    paths = [[comp(f'p{i}_{j}') for j in range(n)] for i, n in enumerate(shape)]
    dcomps = [comp(f'd{j}') for j in range(dd)]; c = comp('c'); rest = [comp(f'r{j}') for j in range(extra)]
    pre = zand([z3.And(b != 47, z3.UGE(b, 0x20), z3.ULT(b, 0x7f)) for b in syms])
    def run(e):
        m = e.call_mir(new_fn, [It('list', l=[mk_path(p) for p in paths], pos=0)])
        v = e.call_mir(visit_fn, [Ref([m], 0), mk_path(dcomps)])
        mt = e.call_mir(matches_fn, [Ref([m], 0), mk_path(dcomps + [c] + rest)])
        return v, mt
    def member(setv):
        if setv.v == 'All': return z3.BoolVal(True)
        return zor([zand([len(sb(x)) == 1] + [sb(x)[0] == c[0]]) if len(sb(x)) == 1 else False for x in setv.f[0].l])
    def sb(x):
        x = deref(x)
        while isinstance(x, Agg): x = deref(x.f[0])
        return x.b if isinstance(x, Str) else x.l
    def spec_matches():
        probe = dcomps + [c] + rest
        def eqp(a, b): return zand([len(a) == len(b)] + [x[0] == y[0] for x, y in zip(a, b)]) if len(a) == len(b) else z3.BoolVal(False)
        if kind == 'Files': return zor([eqp(p, probe) for p in paths])
        return zor([eqp(p, probe[:len(p)]) for p in paths if len(p) <= len(probe)])
    def obligations(k, out, pc, e):
        v, mt = out; mt = zbool(mt)
        yield f'{kind}Matcher::matches selects exactly the listed ' + ('files' if kind == 'Files' else 'prefixes'), mt == spec_matches()
        if v.v == 'Nothing': yield 'visit=Nothing only if nothing below matches', z3.Not(mt)
        elif v.v == 'AllRecursively': yield 'visit=AllRecursively only if everything below matches', mt
        else:
            dirs, files = v.f
            yield 'a matching child is never omitted from a specific visit list', z3.Implies(mt, member(files) if extra == 0 else member(dirs))
    def vjson(m, v):
        if v.v != 'Specific': return v.v
        def sj(x): return 'All' if x.v == 'All' else sorted([mval(m, b) for b in sb(el)] for el in x.f[0].l)
        return dict(dirs=sj(v.f[0]), files=sj(v.f[1]))
    def witness(m, k, out):
        cv = lambda comps: [[mval(m, b) for b in cc] for cc in comps]
        inp = dict(kind=kind, paths=[cv(p) for p in paths], dir=cv(dcomps), probe=cv(dcomps + [c] + rest))
        return dict(input=inp, expect=None if k != 'ok' else dict(visit=vjson(m, out[0]), matches=mval(m, out[1])))
    return explore_job(ix, job['name'], run, obligations, pre=pre, witness=witness, deadline=job.get('deadline'))

def compare_native(case, native):
    if case.get('expect') is None: return ('panic' in native), 'interpreter path panicked but native run did not'
    if 'panic' in native: return False, f'native panic {native["panic"]}'
    return native.get('out') == case['expect'], f'native {native.get("out")} != symbolic {case["expect"]}'

"""Developer REPL helper:  python3-vt -i tools/dbg.py   then   r('C30', 'leaf-Files-1-d0-x0')  (reloads code, keeps the MIR index)."""
import sys, os, importlib, time, traceback
sys.path.insert(0, os.path.dirname(os.path.dirname(os.path.abspath(__file__))))
from mirsym import driver, front
_ix = {}
def ix_for(crates):
    k = tuple(crates)
    if k not in _ix: _ix[k] = driver.build_index(crates)[0]
    return _ix[k]
def r(*a, **kw):
    from mirsym.bigframe import run_in_big_frame
    return run_in_big_frame(lambda: _r(*a, **kw))

def _r(prop, only=None, tier='quick', trace=False, maxjobs=3, quiet=False, stop=True):
    tot = [0]
    os.system('clear')
    import mirsym.mir, mirsym.engine, mirsym.models, mirsym.models2, mirsym.models3, mirsym.models4, mirsym.models5, mirsym.models6, mirsym.harness
    for m in (mirsym.engine, mirsym.models, mirsym.models2, mirsym.models3, mirsym.models4, mirsym.models5, mirsym.models6, mirsym.harness):
        importlib.reload(m)
    import props.graphstub; importlib.reload(props.graphstub)
    mod = importlib.import_module('props.' + prop.lower()); importlib.reload(mod)
    ix = ix_for(mod.CRATES)
    for d in ('_res_cache', '_pcache', '_enum_tables', '_gen_cache'): ix.__dict__.pop(d, None)
    jobs = [j for j in mod.jobs(tier) if only is None or only in j['name']][:maxjobs]
    for j in jobs:
        t = time.time()
        if trace: os.environ['MIRSYM_TRACE'] = '1'
        else: os.environ.pop('MIRSYM_TRACE', None)
        try:
            res = mod.run_job(ix, j, tier)
            if quiet and not res.violations and not res.inconclusive: tot[0] += res.paths; continue
            print(j['name'], 'paths', res.paths, 'panics', res.panic_paths, 'obl', res.discharged, '/', res.obligations, 'viol', [(v.label, v.detail[:200], v.model) for v in res.violations[:3]],
                  'inconcl', [x[:1500] for x in res.inconclusive[:3]], 'notes', res.notes[:3], f'{time.time() - t:.1f}s')
            if stop and (res.violations or res.inconclusive): break
        except Exception: print(''.join(traceback.format_exc().splitlines(True)[-9:])); break
    print('quiet-ok paths', tot[0])

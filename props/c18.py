"""C18  The commit index answers exactly as the commit graph  (lib/src/default_index/composite.rs, bit_set.rs, entry.rs)

Claimed part: the graph queries of CompositeCommitIndex over an ARBITRARY stack of index segments whose entries satisfy the
representation invariant (parents have smaller positions; generation = 1 + max generation of the parents, 0 for a root).
Real code from MIR: CompositeCommitIndex::{entry_by_pos, ancestor_index_segments, ancestor_files_without_local, num_commits,
is_ancestor_pos, common_ancestors_pos, heads_pos, all_heads_pos}, shift_to_parents, dedup_pop, dedup_replace, remove_dup,
CommitIndexEntry::{new, generation_number, parent_positions}, PositionsBitSet::*, AncestorsBitSet::{with_capacity, add_head,
visit_until, contains}.
Symbolic: the whole parent relation (one boolean per pair of positions p < c), hence the generation numbers (terms over those
booleans).  The segment accessors fork on the booleans they are asked about; the oracle is the transitive closure written as a
formula over ALL the booleans, so every graph that agrees with the path on the inspected edges is decided by the solver at once.
"""
import itertools, re, z3
from mirsym.harness import *
from mirsym.engine import NONE, SOME, It, UNIT
from props.graphstub import SymGraph, GP, plist, subset, REF_CAST_OVER

ID = 'C18'
TECHNIQUE = 'symbolic execution of rustc MIR (path-forking) + z3 SMT queries per path; commit graph fully symbolic behind abstract index segments, real segments on small instances with symbolic ids; violations reported on the solver verdict (pub(super) code; no native replay)'
CRATES = ['jj-lib']
NATIVE = None
NATIVE_CONFIRM = False
BOUNDS = {
    'quick': 'ABSTRACT SEGMENTS: every commit DAG on <=4 positions (any parent sets incl. octopus merges, parents listed ascending or descending), '
             'stored in one segment or split over two stacked segments at every split point: is_ancestor_pos for every pair, heads_pos for every '
             'candidate subset, common_ancestors_pos for all pairs of lists of <=2 positions (n<=3; lists of <=1 position for n=4; lists of <=3 positions with repetition for n=2), all_heads_pos, AncestorsBitSet add_head/visit_until/contains '
             'for every head subset; is_ancestor_pos additionally on 5 positions and on the sparse position sets {62,63,64,65} and {1,62,..,65} '
             '(crossing the 64-bit bitset word boundary); AncestorsBitSet on {62,63,64,65}; heads_pos on 5 positions for every 3-element candidate set. '
             'REAL SEGMENTS: 2 commits with symbolic 1-byte commit ids (distinct) and change ids (may coincide), every parent list, added with add_commit_data, serialized, reloaded: '
             'every accessor of the mutable and of the reloaded segment (generation, parents, ids, commit-id lookup of an arbitrary id, change-id lookup); the same for a second segment '
             'stacked on a reloaded 1-commit segment; a fixed 4-commit shape with an octopus merge of 3 parents (parent overflow table) with ascending commit ids and arbitrary change ids (change overflow table)',
    'thorough': 'abstract segments: every query on <=6 positions (7 for is_ancestor_pos, 5 for common_ancestors_pos), is_ancestor_pos on {0,1,62,..,65}, AncestorsBitSet on all three sparse sets, three stacked segments; '
                'real segments: 3 commits round trip, 2+1 commits stacked',
}
ASSUMPTIONS = [
    'graph-query jobs: index segments are abstract - CommitIndexSegment::{num_parent_commits, num_local_commits, parent_file, generation_number, parent_positions} '
    'are harness stubs answering from the symbolic graph, with the representation invariant: parent positions are smaller than the commit position, generation numbers are '
    '1 + max over the parents (0 for roots). The seg-* jobs show on small instances that the real segments (add_commit_data, serialization, reload) establish exactly this invariant',
    'seg-* jobs: the segment file is the byte buffer that was written (file system, file names and content hashing outside); squashing (maybe_squash_with_ancestors), merge_in of '
    'divergent indexes and the DefaultIndexStore bookkeeping are NOT covered',
    'BinaryHeap/BTreeMap are native models; resolve_commit_id_prefix / neighbour lookups belong to C20 and are not covered here',
]
BUDGET = {'quick': 900, 'thorough': 6000}
F = 'lib/src/default_index/composite.rs'
FB = 'lib/src/default_index/bit_set.rs'
SPARSE = [0, 1, 62, 63, 64, 65]

def jobs(tier):
    """quick: a fixed list that always completes (dense n<=4 for every query, n=5 and the sparse sets for is_ancestor_pos only)"""
    out = []
    q = tier == 'quick'
    nmax = 5 if q else 6
    for n in range(2, nmax + 1):
        heavy = n <= 4 or not q            # heads / bitset / allheads fork over candidate subsets as well: n=5,6 only in the thorough tier
        rung = 0 if n <= 4 else n
        sp = ('enumerate', 6) if n >= 4 else None
        for split in [()] + [(k,) for k in range(1, n)]:
            tag = f'n{n}' + ('' if not split else '-split' + '_'.join(map(str, split)))
            out.append(dict(name=f'anc-{tag}', what='anc', pos=list(range(n)), segs=list(split), order='asc', rung=rung, weight=3 ** n, split=('enumerate', 6) if n >= 5 else None))
            if heavy: out.append(dict(name=f'heads-{tag}', what='heads', pos=list(range(n)), segs=list(split), order='asc', rung=rung, weight=4 ** n, split=sp))
        out.append(dict(name=f'anc-n{n}-desc', what='anc', pos=list(range(n)), segs=[], order='desc', rung=rung, weight=3 ** n, split=('enumerate', 6) if n >= 5 else None))
        if heavy:
            out.append(dict(name=f'heads-n{n}-desc', what='heads', pos=list(range(n)), segs=[], order='desc', rung=rung, weight=4 ** n, split=sp))
            out.append(dict(name=f'allheads-n{n}', what='allheads', pos=list(range(n)), segs=[n // 2], order='asc', rung=rung, weight=4 ** n, split=sp))
            out.append(dict(name=f'bitset-n{n}', what='bitset', pos=list(range(n)), segs=[], order='asc', rung=rung, weight=4 ** n, split=sp))
        if n <= (4 if q else 5):
            kmax = 1 if (q and n >= 4) else 2
            out.append(dict(name=f'common-n{n}-k{kmax}', what='common', kmax=kmax, pos=list(range(n)), segs=[n // 2], order='asc', rung=rung, weight=6 ** n, split=('enumerate', 6) if n >= 4 else None))
    # common_ancestors_pos with longer argument lists incl. repeated positions (the same position queued three or more times on both sides)
    out.append(dict(name='common-n2-k3', what='common', kmax=3, pos=[0, 1], segs=[1], order='asc', rung=0, weight=500, split=('enumerate', 6)))
    if not q: out.append(dict(name='common-n3-k3', what='common', kmax=3, pos=[0, 1, 2], segs=[1], order='asc', rung=4, weight=5000, split=('enumerate', 6)))
    for k in ((4, 5) if q else (4, 5, 6)):
        sp = SPARSE[6 - k:]
        out.append(dict(name=f'anc-sparse{k}', what='anc', pos=sp, segs=[], order='asc', rung=0 if k <= 4 else k, weight=3 ** k, split=('enumerate', 6) if k >= 5 else None))
        if k <= 4 or not q:
            out.append(dict(name=f'bitset-sparse{k}', what='bitset', pos=sp, segs=[], order='desc', rung=0 if k <= 4 else k, weight=4 ** k, split=('enumerate', 6)))
    if q:
        # heads_pos over 5 positions restricted to candidate sets of exactly 3 commits (the smallest shape in which the generation cut-off of
        # one candidate can hide a grand-parent relation between two others; all candidate subsets are in the thorough tier)
        out.append(dict(name='heads-n5-cand3', what='heads', cand_size=3, pos=list(range(5)), segs=[2], order='asc', rung=5, weight=4 ** 5, split=('enumerate', 6)))
    # real segments: MutableCommitIndexSegment built by add_commit_data, serialized, reloaded as ReadonlyCommitIndexSegment (incl. overflow tables), stacked
    for k in ((2,) if q else (2, 3)):
        out.append(dict(name=f'seg-roundtrip-k{k}', what='seg', k=k, stacked=False, rung=0 if k <= 2 else k, weight=20 ** k, split=('enumerate', 8)))
    for k in ((1,) if q else (1, 2)):
        out.append(dict(name=f'seg-stacked-k{k}', what='seg', k=k, stacked=True, rung=0 if k <= 1 else k + 2, weight=30 ** k, split=('enumerate', 8)))
    # the parent overflow table needs a commit with >= 3 parents, i.e. 4 commits: fixed shape (root, two children, octopus merge of all three), commit ids ascending
    out.append(dict(name='seg-octopus', what='seg', k=4, stacked=False, fixed_parents=[[], [0], [0], [0, 1, 2]], ascending_ids=True, rung=0, weight=500, split=('enumerate', 8)))
    if not q:
        out.append(dict(name='anc-n7', what='anc', pos=list(range(7)), segs=[3], order='asc', rung=7, weight=3 ** 7, split=('enumerate', 6)))
        out.append(dict(name='anc-n6-split2_4', what='anc', pos=list(range(6)), segs=[2, 4], order='asc', rung=6, weight=3 ** 6, split=('enumerate', 6)))
        out.append(dict(name='heads-n6-split2_4', what='heads', pos=list(range(6)), segs=[2, 4], order='desc', rung=6, weight=4 ** 6, split=('enumerate', 6)))
    return out

def run_job(ix, job, tier):
    if job['what'] == 'seg': return job_seg(ix, job)
    P = job['pos']; n = len(P); cuts = job['segs']; what = job['what']
    G = SymGraph(P, cuts, job['order']); par, gen, reach, over, index = G.par, G.gen, G.reach, G.over, G.index
    is_anc = ix.find_method(F, 'CompositeCommitIndex', 'is_ancestor_pos'); heads_pos = ix.find_method(F, 'CompositeCommitIndex', 'heads_pos')
    common = ix.find_method(F, 'CompositeCommitIndex', 'common_ancestors_pos'); all_heads = ix.find_method(F, 'CompositeCommitIndex', 'all_heads_pos')
    def small_set(e, items, kmax=2):
        """any list of <= kmax elements (with order, duplicates allowed for kmax == 2)"""
        k = e.choose(kmax + 1); return [items[e.choose(len(items))] for _ in range(k)]

    if what == 'anc':
        def run(e):
            a = P[e.choose(n)]; d = P[e.choose(n)]
            return a, d, e.call_mir(is_anc, [index, GP(a), GP(d)])
        def obligations(kind, out, pc, e):
            a, d, r = out
            yield f'is_ancestor_pos({a},{d}) == reachability of {a} from {d} in the commit graph', (reach[d, a] if r is True else z3.Not(reach[d, a]) if r is False else False)
    elif what == 'heads':
        def run(e):
            if job.get('cand_size'):
                combos = list(itertools.combinations(list(reversed(P)), job['cand_size'])); cand = list(combos[e.choose(len(combos))])
            else: cand = subset(e, list(reversed(P)))
            return cand, plist(e.call_mir(heads_pos, [index, Vec([GP(c) for c in cand], 'Vec')]))
        def obligations(kind, out, pc, e):
            cand, r = out
            yield 'heads_pos returns a descending sub-list of the candidates', (all(x in cand for x in r) and all(x > y for x, y in zip(r, r[1:])))
            for c in cand:
                dominated = zor([reach[c2, c] for c2 in cand if c2 > c])
                yield f'candidate {c} is kept iff no other candidate descends from it', (z3.Not(dominated) if c in r else dominated)
    elif what == 'common':
        def run(e):
            s1 = small_set(e, P, job.get('kmax', 2)); s2 = small_set(e, P, job.get('kmax', 2))
            return s1, s2, plist(e.call_mir(common, [index, Vec([GP(c) for c in s1], 'Vec'), Vec([GP(c) for c in s2], 'Vec')]))
        def obligations(kind, out, pc, e):
            s1, s2, r = out
            ca = {x: z3.And(zor([reach[a, x] for a in s1]), zor([reach[b, x] for b in s2])) for x in P}
            yield 'common_ancestors_pos result is strictly descending', all(x > y for x, y in zip(r, r[1:]))
            for x in P:
                greatest = z3.And(ca[x], z3.Not(zor([z3.And(ca[y], reach[y, x]) for y in P if y > x])))
                yield f'{x} is returned iff it is a greatest common ancestor', (greatest if x in r else z3.Not(greatest))
    elif what == 'allheads':
        def run(e):
            it = e.call_mir(all_heads, [index])
            return [x.f[0] for x in e.drain_iter(e.it_of(it))]
        def obligations(kind, out, pc, e):
            yield 'all_heads_pos is ascending', all(x < y for x, y in zip(out, out[1:]))
            for x in P:
                haschild = zor([par[c, x] for c in P if c > x])
                yield f'{x} is a head iff it has no child', (z3.Not(haschild) if x in out else haschild)
    elif what == 'bitset':
        with_cap = ix.find_method(FB, 'AncestorsBitSet', 'with_capacity'); add_head = ix.find_method(FB, 'AncestorsBitSet', 'add_head')
        visit = ix.find_method(FB, 'AncestorsBitSet', 'visit_until'); contains = ix.find_method(FB, 'AncestorsBitSet', 'contains')
        def run(e):
            hs = subset(e, P)
            if not hs: raise PathEnd()
            bs = e.call_mir(with_cap, [max(P) + 1])
            for h in hs: e.call_mir(add_head, [Ref([bs], 0), GP(h)])
            v = P[e.choose(n)]
            e.call_mir(visit, [Ref([bs], 0), index, GP(v)])
            # everything in the visited 64-bit words may be queried
            res = {q: e.call_mir(contains, [Ref([bs], 0), GP(q)]) for q in P if q // 64 >= v // 64}
            # a second, deeper visit must extend, not change, the answers
            e.call_mir(visit, [Ref([bs], 0), index, GP(P[0])])
            res2 = {q: e.call_mir(contains, [Ref([bs], 0), GP(q)]) for q in P}
            return hs, v, res, res2
        def obligations(kind, out, pc, e):
            hs, v, res, res2 = out
            for tag, rr in (('', res), (' after visiting down to the root', res2)):
                for q, r in rr.items():
                    anc = zor([reach[h, q] for h in hs])
                    yield f'contains({q}){tag} == {q} is an ancestor of some head', (anc if r is True else z3.Not(anc) if r is False else False)
    return explore_job(ix, job['name'], run, obligations, overrides=over, deadline=job.get('deadline'), split=job.get('split'))

FM = 'lib/src/default_index/mutable.rs'
FR = 'lib/src/default_index/readonly.rs'

def job_seg(ix, job):
    """k commits with symbolic 1-byte commit ids (pairwise distinct) and symbolic 1-byte change ids (may coincide) are added to a real
    MutableCommitIndexSegment with every choice of parent lists (any subset of the earlier commits, so 3+ parents reach the overflow
    table); the segment is serialized and reloaded; every accessor of the reloaded segment must agree with what was added.
    stacked: a second mutable segment on top of the reloaded one gets one more commit, is serialized and reloaded with its parent."""
    k = job['k']; stacked = job['stacked']
    full = ix.find_method(FM, 'MutableCommitIndexSegment', 'full'); incr = ix.find_method(FM, 'MutableCommitIndexSegment', 'incremental')
    add = ix.find_method(FM, 'MutableCommitIndexSegment', 'add_commit_data'); ser = ix.find_method(FM, 'MutableCommitIndexSegment', 'serialize_local_entries')
    load = ix.find_method(FR, 'ReadonlyCommitIndexSegment', 'load_with_parent_file')
    total = k + (1 if stacked else 0)
    cids = [byte(f'cid{i}') for i in range(total)]; chg = [byte(f'chg{i}') for i in range(total)]; q = byte('q')
    pre = zand([a != b for a, b in itertools.combinations(cids, 2)])
    if job.get('ascending_ids'): pre = zand([z3.ULT(a, b) for a, b in zip(cids, cids[1:])])
    fixed = job.get('fixed_parents')
    def CIDv(b): return Agg([Vec([b], 'Vec')], 'CommitId')
    def CHGv(b): return Agg([Vec([b], 'Vec')], 'ChangeId')
    lengths = lambda: mk_struct(ix, FR, 'FieldLengths', commit_id=1, change_id=1)
    T = 'CommitIndexSegment'
    def acc(e, seg, meth, *args, rty='ReadonlyCommitIndexSegment'):
        return e.call(f'<{rty} as {T}>::{meth}', [seg] + list(args))
    def LP(i): return Agg([i], 'LocalCommitPosition')
    def observe(e, seg, rty, lo, hi):
        """everything the index can be asked about the local commits lo..hi of `seg`"""
        o = {}
        for g in range(lo, hi):
            lp = LP(g - lo)
            o['gen', g] = acc(e, seg, 'generation_number', lp, rty=rty)
            o['parents', g] = [x.f[0] for x in deref(acc(e, seg, 'parent_positions', lp, rty=rty)).l]
            o['nparents', g] = acc(e, seg, 'num_parents', lp, rty=rty)
            o['cid', g] = deref(acc(e, seg, 'commit_id', lp, rty=rty).f[0]).l[0]
            o['chg', g] = deref(acc(e, seg, 'change_id', lp, rty=rty).f[0]).l[0]
            pfx = mk_struct(ix, 'lib/src/object_id.rs', 'HexPrefix', min_prefix_bytes=Vec([chg[g]], 'Vec'), has_odd_byte=False)
            rc = acc(e, seg, 'resolve_change_id_prefix', Ref([pfx], 0), rty=rty)
            o['chgpos', g] = (rc.v, [x.f[0] for x in deref(rc.f[0].f[1]).l] if rc.v == 'SingleMatch' else None)
        r = acc(e, seg, 'commit_id_to_pos', Ref([CIDv(q)], 0), rty=rty)
        o['lookup'] = None if r.v == 'None' else r.f[0].f[0]
        return o
    def run(e):
        m = e.call_mir(full, [lengths()])
        parents = {}
        for i in range(k):
            if fixed is not None: ps = list(fixed[i])
            else:
                ps = [j for j in range(i) if e.choose(2) == 1]
                if len(ps) >= 2 and e.choose(2) == 1: ps = list(reversed(ps))
            parents[i] = ps
            e.call_mir(add, [Ref([m], 0), CIDv(cids[i]), CHGv(chg[i]), SliceRef([CIDv(cids[j]) for j in ps])])
        om = observe(e, Ref([m], 0), 'MutableCommitIndexSegment', 0, k)
        buf = Vec([], 'Vec'); e.call_mir(ser, [Ref([m], 0), Ref([buf], 0)])
        rd = Ref([SliceRef(list(buf.l))], 0)
        r = e.call_mir(load, [rd, Agg([Vec([1], 'Vec')], 'CommitIndexSegmentId'), NONE(), lengths()])
        if r.v != 'Ok': raise Panic('reload of the serialized segment failed')
        ro = r.f[0]                                    # Arc<ReadonlyCommitIndexSegment>
        oro = observe(e, ro, 'ReadonlyCommitIndexSegment', 0, k)
        out = dict(parents=parents, mutable=om, readonly=oro, k=k)
        if stacked:
            m2 = e.call_mir(incr, [ro])
            ps = [j for j in range(k) if e.choose(2) == 1]; parents[k] = ps
            e.call_mir(add, [Ref([m2], 0), CIDv(cids[k]), CHGv(chg[k]), SliceRef([CIDv(cids[j]) for j in ps])])
            out['mutable2'] = observe(e, Ref([m2], 0), 'MutableCommitIndexSegment', k, k + 1)
            buf2 = Vec([], 'Vec'); e.call_mir(ser, [Ref([m2], 0), Ref([buf2], 0)])
            r2 = e.call_mir(load, [Ref([SliceRef(list(buf2.l))], 0), Agg([Vec([2], 'Vec')], 'CommitIndexSegmentId'), SOME(ro), lengths()])
            if r2.v != 'Ok': raise Panic('reload of the stacked segment failed')
            out['readonly2'] = observe(e, r2.f[0], 'ReadonlyCommitIndexSegment', k, k + 1)
        return out
    def obligations(kind, out, pc, e):
        parents = out['parents']
        gen = {}
        for i in sorted(parents): gen[i] = 0 if not parents[i] else 1 + max(gen[j] for j in parents[i])
        def same(a, b): return (a == b) if isinstance(a, (int, bool)) and isinstance(b, (int, bool)) else a == b
        for tag, lo, hi in [('mutable', 0, out['k']), ('readonly', 0, out['k'])] + ([('mutable2', out['k'], out['k'] + 1), ('readonly2', out['k'], out['k'] + 1)] if 'mutable2' in out else []):
            o = out[tag]
            for g in range(lo, hi):
                yield f'{tag}: generation number of commit {g} is 1 + max over its parents', same(o['gen', g], gen[g])
                yield f'{tag}: parents of commit {g} are the positions of the given parent ids, in order', (o['parents', g] == parents[g] and o['nparents', g] == len(parents[g]))
                yield f'{tag}: commit id of commit {g}', same(o['cid', g], cids[g])
                yield f'{tag}: change id of commit {g}', same(o['chg', g], chg[g])
                v, poss = o['chgpos', g]
                yield f'{tag}: the full change id of commit {g} resolves to one change', v == 'SingleMatch'
                if poss is not None:
                    yield f'{tag}: positions of the change of commit {g} are ascending local positions', all(isinstance(x, int) for x in poss) and all(x < y for x, y in zip(poss, poss[1:])) and all(0 <= x < hi - lo for x in poss)
                    for j in range(lo, hi):
                        yield f'{tag}: commit {j} is listed under the change id of commit {g} iff it has that change id', ((chg[j] == chg[g]) if (j - lo) in poss else (chg[j] != chg[g]))
            lk = o['lookup']
            if lk is None: yield f'{tag}: an id that is not found is none of the local ids', zand([q != cids[g] for g in range(lo, hi)])
            else: yield f'{tag}: commit_id_to_pos finds the local position of the id', (same(q, cids[lo + lk]) if isinstance(lk, int) and 0 <= lk < hi - lo else False)
    def sample(kind, out, pc): return dict(job=job['name'], parents=str(out['parents']), readonly=str({str(k_): str(v) for k_, v in out['readonly'].items()})[:300], path_condition=[str(c)[:60] for c in pc[:8]])
    return explore_job(ix, job['name'], run, obligations, overrides=list(REF_CAST_OVER), pre=pre, sample=sample, deadline=job.get('deadline'), split=job.get('split'))

def compare_native(case, native):
    return True, ''

//! Native replay runner for properties anchored in jj-cli (see ../replay for the protocol).
use std::io::BufRead as _;
use std::io::Write as _;
use std::panic::AssertUnwindSafe;
use std::panic::catch_unwind;

use jj_cli::text_util::elide_end;
use jj_cli::text_util::elide_start;
use serde_json::Value;
use serde_json::json;
use unicode_width::UnicodeWidthChar as _;

/// pools of real characters by (UTF-8 length, width); width -1 = None
fn pool(len: u64, width: i64) -> &'static [char] {
    match (len, width) {
        (1, 1) => &['a', 'b', 'c', 'd', 'e', 'f'],
        (1, -1) => &['\u{1}', '\u{2}', '\u{3}', '\u{4}', '\u{5}', '\u{6}'],
        (2, 1) => &['é', 'ü', 'ß', 'ñ', 'Ж', 'λ'],
        (2, 0) => &['\u{301}', '\u{302}', '\u{303}', '\u{304}', '\u{306}', '\u{307}'],
        (2, -1) => &['\u{85}', '\u{86}', '\u{87}', '\u{88}', '\u{89}', '\u{8a}'],
        (3, 1) => &['€', '→', '√', '∞', '≈', '∑'],
        (3, 2) => &['中', '文', '字', '日', '本', '語'],
        (3, 0) => &['\u{200b}', '\u{20d0}', '\u{20d1}', '\u{20d2}', '\u{fe00}', '\u{fe01}'],
        (4, 2) => &['😀', '😁', '😂', '😃', '😄', '😅'],
        (4, 1) => &['\u{10000}', '\u{10001}', '\u{10002}', '\u{10003}', '\u{10004}', '\u{10005}'],
        (4, 0) => &['\u{e0100}', '\u{e0101}', '\u{e0102}', '\u{e0103}', '\u{e0104}', '\u{e0105}'],
        _ => &[],
    }
}

fn c44(case: &Value) -> Value {
    let mut used: std::collections::HashMap<(u64, i64), usize> = Default::default();
    let mut chars: Vec<char> = vec![];
    let mut build = |spec: &Value, chars: &mut Vec<char>| -> Option<String> {
        let mut s = String::new();
        for c in spec.as_array().unwrap() {
            let len = c["len"].as_u64().unwrap();
            let width = c["width"].as_i64().unwrap_or(-1);
            let p = pool(len, width);
            let k = used.entry((len, width)).or_insert(0);
            let ch = *p.get(*k % p.len().max(1))?;
            *k += 1;
            if ch.len_utf8() as u64 != len || ch.width().map_or(-1, |w| w as i64) != width {
                return None; // this unicode-width version classifies the character differently: no native witness for the case
            }
            chars.push(ch);
            s.push(ch);
        }
        Some(s)
    };
    let Some(text) = build(&case["text"], &mut chars) else { return json!({"skipped": true, "holds": true}) };
    let Some(ellipsis) = build(&case["ellipsis"], &mut chars) else { return json!({"skipped": true, "holds": true}) };
    let max_width = case["max_width"].as_u64().unwrap() as usize;
    let (out, width) = match case["fn"].as_str().unwrap() {
        "elide_start" => elide_start(&text, &ellipsis, max_width),
        _ => elide_end(&text, &ellipsis, max_width),
    };
    let real_width: usize = out.chars().map(|c| c.width().unwrap_or(0)).sum();
    let text_width: usize = text.chars().map(|c| c.width().unwrap_or(0)).sum();
    let mut why = vec![];
    if real_width != width {
        why.push("returned width is not the width of the returned string");
    }
    if real_width > max_width {
        why.push("wider than max_width");
    }
    if text_width <= max_width && out != text {
        why.push("text that fits was changed");
    }
    // map the result back to character ids when characters are distinct; otherwise report the string
    let ids: Option<Vec<usize>> = out.chars().map(|c| {
        let pos: Vec<usize> = chars.iter().enumerate().filter(|(_, x)| **x == c).map(|(i, _)| i).collect();
        if pos.len() == 1 { Some(pos[0]) } else { None }
    }).collect();
    json!({"out": {"chars": ids, "width": width}, "string": out, "holds": why.is_empty(), "why": why})
}

fn main() {
    let prop = std::env::args().nth(1).expect("property");
    std::panic::set_hook(Box::new(|_| {}));
    let stdin = std::io::stdin();
    let stdout = std::io::stdout();
    for line in stdin.lock().lines() {
        let line = line.unwrap();
        if line.trim().is_empty() {
            continue;
        }
        let case: Value = serde_json::from_str(&line).expect("json case");
        let res = catch_unwind(AssertUnwindSafe(|| match prop.as_str() {
            "c44" => c44(&case),
            _ => json!({"error": format!("unknown property {prop}")}),
        }));
        let out = match res {
            Ok(v) => v,
            Err(p) => {
                let msg = p.downcast_ref::<String>().cloned().or_else(|| p.downcast_ref::<&str>().map(|s| s.to_string())).unwrap_or_else(|| "panic".to_string());
                json!({"panic": msg})
            }
        };
        writeln!(stdout.lock(), "{out}").unwrap();
    }
}

"""C20  Shortest unique id prefixes are unique, minimal and resolvable  (lib/src/id_prefix.rs IdIndex + core/src/hex_util.rs + object_id.rs HexPrefix)

Real code from MIR: IdIndex::<CommitId, u32, 4>::{builder, with_capacity}, IdIndexBuilder::{insert, build}, IdIndex::{lookup_some,
shortest_unique_prefix_len, resolve_prefix_with (+ inner collect fn and closures), resolve_prefix_to_key}, IdIndexLookup::
shortest_unique_prefix_len, unwrap_as_short_key, hex_util::common_hex_len, HexPrefix::{min_prefix_bytes, matches, split_odd_byte},
PrefixResolution::map.
Symbolic: the last two bytes of every 5-byte id (the first three bytes are a shared concrete prefix, so ids share short keys of
N = 4 bytes exactly when their 4th bytes agree: the slow path is reached by the solver), the queried prefix.
"""
import itertools, re, z3
from mirsym.harness import *
from mirsym.engine import NONE, SOME, It

ID = 'C20'
TECHNIQUE = 'symbolic execution of rustc MIR (path-forking) + z3 SMT queries per path; counterexamples replayed against the compiled code; thorough tier adds a Kani/CBMC harness for hex_util::common_hex_len'
CRATES = ['jj-lib', 'jj-core']
NATIVE = 'c20'
KANI = ['c20_common_hex_len_3']
BOUNDS = {
    'quick': 'IdIndex<CommitId, u32, 4> over 1..3 ids of 5 bytes (3-byte shared concrete prefix + 2 symbolic bytes each, ids pairwise distinct), shortest_unique_prefix_len of every inserted id and resolution of its shortest prefix and of the prefix one digit shorter; resolution of an arbitrary prefix of 7..10 hex digits; the same for 1..3 ids of 4 bytes (2-byte shared prefix + 2 symbolic bytes) and arbitrary prefixes of 5..8 digits',
    'thorough': '1..4 ids; arbitrary prefixes of 1..10 digits',
}
ASSUMPTIONS = [
    'ids are pairwise distinct (they are keys); index built by the real IdIndexBuilder from a source table',
    'IdIndexSource::entry_at / IdIndexSourceEntry::to_key (6 lines of table-access glue in id_prefix.rs) are harness stubs over the source table',
    'the composite multi-segment index, IdPrefixIndex fallback to the repo index and disambiguate_prefix_with_refs need a repository and are not covered',
]
BUDGET = {'quick': 900, 'thorough': 3000}
F = 'lib/src/id_prefix.rs'
PFX = [0xab, 0xcd, 0xef]

def jobs(tier):
    out = []
    for n in ((1, 2, 3) if tier == 'quick' else (1, 2, 3, 4)):
        out.append(dict(name=f'shortest-n{n}', what='shortest', n=n, rung=0 if n <= 2 else n, weight=10 ** n, split=('enumerate', 8) if n >= 3 else None))
        for d in ((7, 8, 9, 10) if tier == 'quick' else range(1, 11)):
            out.append(dict(name=f'resolve-n{n}-d{d}', what='resolve', n=n, d=d, rung=0 if n <= 2 else n, weight=10 ** n, split=('enumerate', 8) if n >= 3 else None))
    # 4-byte ids with a 2-byte shared prefix: the digits 5..8 of ids and of the queried prefix are all symbolic, so neighbouring
    # short keys differ in the byte BEFORE the last (odd) digit of the prefix (range arithmetic on the short keys)
    for n in (1, 2, 3):
        for d in (5, 6, 7, 8):
            out.append(dict(name=f'resolve4-n{n}-d{d}', what='resolve', n=n, d=d, pl=2, L=4, rung=0 if n <= 2 else n, weight=10 ** n, split=('enumerate', 8) if n >= 3 else None))
    return out

def run_job(ix, job, tier):
    n = job['n']; pl = job.get('pl', 3); L_ = job.get('L', 5)
    ids = [PFX[:pl] + [byte(f'id{i}_{j}') for j in range(pl, L_)] for i in range(n)]
    distinct = zand([zor([a[j] != b[j] for j in range(pl, L_)]) for a, b in itertools.combinations(ids, 2)])
    builder_fn = ix.find_method(F, 'IdIndex', 'with_capacity'); insert_fn = ix.find_method(F, 'IdIndexBuilder', 'insert'); build_fn = ix.find_method(F, 'IdIndexBuilder', 'build')
    shortest_fn = ix.find_method(F, 'IdIndex', 'shortest_unique_prefix_len'); resolve_fn = ix.find_method(F, 'IdIndex', 'resolve_prefix_to_key')
    TA = ['CommitId', 'u32', '4']
    def cid(b): return Agg([Vec(list(b), 'Vec')], 'CommitId')
    table = [Agg([cid(b), Agg([Vec([], 'Vec')], 'ChangeId')], 'tup') for b in ids]
    def entry_at(e, c, a):
        i = deref(a[1])
        if not isinstance(i, int): raise EngineError('symbolic source pointer')
        return Ref(table, i)
    def to_key(e, c, a):
        ent = deref(a[0]); return cid(list(deref(ent.f[0].f[0]).l))
    over = [(re.compile(r'as IdIndexSource<.*>>::entry_at$'), entry_at), (re.compile(r'as IdIndexSourceEntry<.*>>::to_key$'), to_key)]
    def build(e):
        b = e.call_mir(builder_fn, [n], self_targs=TA)
        for i in range(n): e.call_mir(insert_fn, [Ref([b], 0), Ref([cid(ids[i])], 0), i], self_targs=TA)
        return e.call_mir(build_fn, [b], self_targs=TA)
    def hexdigits(b): return [x for byte_ in b for x in ((z3.LShR(byte_, 4) if not isinstance(byte_, int) else byte_ >> 4), (byte_ & 0xf))]
    def mk_prefix(b, d):
        """HexPrefix of the first d hex digits of the byte string b"""
        nb = (d + 1) // 2; bs = list(b[:nb])
        if d % 2: bs[-1] = bs[-1] & 0xf0
        return mk_struct(ix, 'lib/src/object_id.rs', 'HexPrefix', min_prefix_bytes=Vec(bs, 'Vec'), has_odd_byte=bool(d % 2))
    def resolve(e, idx, b, d):
        r = e.call_mir(resolve_fn, [Ref([idx], 0), SliceRef(table), Ref([mk_prefix(b, d)], 0)], self_targs=TA, targs=['&[(CommitId, ChangeId)]'])
        if r.v == 'SingleMatch': return ('Single', list(deref(r.f[0].f[0]).l))
        return (r.v.replace('Match', ''),)
    def starts(idb, b, d):
        hi, hb = hexdigits(idb), hexdigits(b)
        return zand([zbool(x == y) if isinstance(x, int) and isinstance(y, int) else x == y for x, y in zip(hi[:d], hb[:d])])
    def same(a, b): return zand([zbool(x == y) if isinstance(x, int) and isinstance(y, int) else x == y for x, y in zip(a, b)])
    def expect_formula(res, b, d):
        """res agrees with the number of ids whose hex form starts with the first d digits of b"""
        ms = [starts(idb, b, d) for idb in ids]
        cnt = z3.Sum([z3.If(m_, 1, 0) for m_ in ms]) if ms else z3.IntVal(0)
        if res[0] == 'No': return cnt == 0
        if res[0] == 'Ambiguous': return cnt >= 2 if d > 0 else z3.BoolVal(True)
        return z3.And(cnt == 1, zand([z3.Implies(m_, same(res[1], idb)) for m_, idb in zip(ms, ids)]))
    if job['what'] == 'shortest':
        def run(e):
            idx = build(e); out = []
            for i in range(n):
                L = e.call_mir(shortest_fn, [Ref([idx], 0), SliceRef(table), Ref([cid(ids[i])], 0)], self_targs=TA, targs=['&[(CommitId, ChangeId)]'])
                if not isinstance(L, int): raise EngineError('symbolic prefix length')
                r1 = resolve(e, idx, ids[i], L) if L <= 10 else None
                r0 = resolve(e, idx, ids[i], L - 1) if 2 <= L <= 11 else None
                out.append((L, r1, r0))
            return out
        def obligations(k, out, pc, e):
            for i, (L, r1, r0) in enumerate(out):
                yield f'shortest prefix length of id {i} is between 1 and the id length', 1 <= L <= 10
                if r1 is not None: yield f'the shortest prefix of id {i} resolves to exactly that id', (same(r1[1], ids[i]) if r1[0] == 'Single' else False)
                if r0 is not None: yield f'the prefix one digit shorter does not resolve to id {i}', (z3.Not(same(r0[1], ids[i])) if r0[0] == 'Single' else True)
                # minimality stated on the ids themselves: some other id shares the first L-1 digits (or L == 1)
                if L >= 2: yield f'minimality: another id shares the first {L - 1} digits of id {i}', zor([starts(ids[j], ids[i], L - 1) for j in range(n) if j != i])
                yield f'uniqueness: no other id shares the first {L} digits of id {i}', z3.Not(zor([starts(ids[j], ids[i], L) for j in range(n) if j != i])) if L <= 10 else False
        def witness(m, k, out):
            inp = dict(op='shortest', ids=[[mval(m, x) for x in b] for b in ids])
            return dict(input=inp, expect=None if k != 'ok' else [o[0] for o in out])
        return explore_job(ix, job['name'], run, obligations, overrides=over, pre=distinct, witness=witness, deadline=job.get('deadline'), split=job.get('split'))
    d = job['d']; q = PFX[:pl] + [byte(f'q{j}') for j in range(pl, L_)]
    def run(e):
        idx = build(e); return resolve(e, idx, q, d)
    def obligations(k, res, pc, e):
        yield f'resolution of a {d}-digit prefix agrees with the set of ids that start with it', expect_formula(res, q, d)
    def witness(m, k, res):
        inp = dict(op='resolve', ids=[[mval(m, x) for x in b] for b in ids], q=[mval(m, x) for x in q], d=d)
        return dict(input=inp, expect=None if k != 'ok' else ([res[0]] + ([[mval(m, x) for x in res[1]]] if len(res) > 1 else [])))
    return explore_job(ix, job['name'], run, obligations, overrides=over, pre=distinct, witness=witness, deadline=job.get('deadline'), split=job.get('split'))

def compare_native(case, native):
    if case.get('expect') is None: return ('panic' in native), 'interpreter path panicked but native run did not'
    if 'panic' in native: return False, f'native panic {native["panic"]}'
    return native.get('out') == case['expect'], f'native {native.get("out")} != symbolic {case["expect"]}'

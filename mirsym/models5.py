"""BTreeMap/BTreeSet with symbolic keys (sorted association list, order decided by forking comparisons), integer <-> byte
conversions, std::io::Read on byte slices / cursors, Arc/Rc, misc."""
import re, itertools
import z3
from .engine import *
from .mir import split_top
from .models2 import BTreeMapM

def register5(E):
    R = lambda rx: (lambda f: (E.models.insert(0, (re.compile(rx), f)), f)[1])
    eq_val = E.eq_val; clone_val = E.clone_val; bl = E.bl
    BT = r'^(std::collections::)?(BTreeMap|btree_map::BTreeMap)::<.*>::'
    def bm(x):
        m = deref(x)
        if not isinstance(m, BTreeMapM): raise EngineError(f'not a BTreeMap: {m!r}')
        return m
    def find(e, m, key):
        """(index, found) with items kept sorted by key"""
        for i, (k, cell) in enumerate(m.items):
            o = e.cmp3(k, key)
            if o == 'Equal': return i, True
            if o == 'Greater': return i, False
        return len(m.items), False
    class BTValRef(Ref):
        __slots__ = ('cell',)
        def __init__(self, cell): self.cell = cell; self.c = cell; self.k = 0
    @R(BT + r'new$|^<(std::collections::)?BTreeMap<.*> as Default>::default$')
    def _(e, c, a): return BTreeMapM()
    @R(BT + r'insert$')
    def _(e, c, a):
        m = bm(a[0]); i, found = find(e, m, a[1])
        if found:
            old = m.items[i][1][0]; m.items[i][1][0] = a[2]; return SOME(old)
        m.items.insert(i, (a[1], [a[2]])); return NONE()
    @R(BT + r'(get|get_mut)::<')
    def _(e, c, a):
        m = bm(a[0]); i, found = find(e, m, a[1])
        return SOME(Ref(m.items[i][1], 0)) if found else NONE()
    @R(BT + r'contains_key::<')
    def _(e, c, a): return find(e, bm(a[0]), a[1])[1]
    @R(BT + r'remove::<')
    def _(e, c, a):
        m = bm(a[0]); i, found = find(e, m, a[1])
        if not found: return NONE()
        return SOME(m.items.pop(i)[1][0])
    @R(BT + r'(len)$')
    def _(e, c, a): return len(bm(a[0]).items)
    @R(BT + r'(is_empty)$')
    def _(e, c, a): return len(bm(a[0]).items) == 0
    @R(BT + r'(clear)$')
    def _(e, c, a): bm(a[0]).items.clear(); return UNIT
    @R(BT + r'(iter|iter_mut)$')
    def _(e, c, a): return It('list', l=[Agg([Ref([k], 0), Ref(cell, 0)], 'tup') for k, cell in bm(a[0]).items], pos=0)
    @R(BT + r'(keys)$')
    def _(e, c, a): return It('list', l=[Ref([k], 0) for k, _ in bm(a[0]).items], pos=0)
    @R(BT + r'(values|values_mut)$')
    def _(e, c, a): return It('list', l=[Ref(cell, 0) for _, cell in bm(a[0]).items], pos=0)
    @R(BT + r'(into_keys|into_values)$')
    def _(e, c, a): return It('list', l=[(k if 'keys' in c else cell[0]) for k, cell in bm(a[0]).items], pos=0)
    @R(BT + r'(first_key_value|last_key_value)$')
    def _(e, c, a):
        m = bm(a[0])
        if not m.items: return NONE()
        k, cell = m.items[0 if 'first' in c else -1]; return SOME(Agg([Ref([k], 0), Ref(cell, 0)], 'tup'))
    @R(BT + r'(pop_first|pop_last)$')
    def _(e, c, a):
        m = bm(a[0])
        if not m.items: return NONE()
        k, cell = m.items.pop(0 if 'first' in c else -1); return SOME(Agg([k, cell[0]], 'tup'))
    @R(BT + r'entry$')
    def _(e, c, a):
        m = bm(a[0]); i, found = find(e, m, a[1])
        return Enum('Occupied', [m, i], 'BTEntry2') if found else Enum('Vacant', [m, a[1], i], 'BTEntry2')
    @R(r'Entry::<.*>::(or_insert_with|or_default|or_insert|and_modify)(::<.*)?$')
    def _(e, c, a):
        en = a[0]
        if en.ty != 'BTEntry2':
            for rx, f in E.models:                      # other entry kinds: older handlers
                if f is not _bt_entry and rx.search(c): return f(e, c, a)
            raise EngineError('entry kind ' + str(en.ty))
        op = re.search(r'>::(\w+)', c).group(1)
        if op == 'and_modify':
            if en.v == 'Occupied': m, i = en.f; e.closure_call(a[1], [Ref(m.items[i][1], 0)])
            return en
        if en.v == 'Vacant':
            m, k, i = en.f
            if op == 'or_insert': val = a[1]
            elif op == 'or_insert_with': val = e.closure_call(a[1], [])
            else:
                t = c.split('Entry::<', 1)[1]
                if re.search(r', (std::vec::)?Vec<', t) or re.search(r', (smallvec::)?SmallVec<', t): val = Vec([])
                elif re.search(r', (usize|u32|u64|i32|i64|u8)>', t): val = 0
                else:
                    targs = split_top(re.search(r'Entry::<(.*)>::or_default$', c).group(1))
                    val = e.call(f'<{targs[-1].strip()} as Default>::default', [])
            m.items.insert(i, (k, [val]))
        else: m, i = en.f
        return Ref(m.items[i][1], 0)
    _bt_entry = _
    @R(r'^<(std::collections::)?BTreeMap<.*> as Extend<.*>>::extend::<|' + BT + r'extend::<')
    def _(e, c, a):
        m = bm(a[0])
        for kv in E.drain_iter(E.it_of(a[1])):
            k, v = deref(kv).f; i, found = find(e, m, k)
            if found: m.items[i][1][0] = v
            else: m.items.insert(i, (k, [v]))
        return UNIT
    @R(BT + r'range::<')
    def _(e, c, a):
        m = bm(a[0]); r = a[1]
        if isinstance(r, Agg) and r.ty == 'tup' and len(r.f) == 2 and all(isinstance(x, Enum) and x.ty == 'Bound' for x in r.f):
            def ok(k):
                lo_b, hi_b = r.f
                if lo_b.v != 'Unbounded':
                    o = e.cmp3(k, lo_b.f[0])
                    if o == 'Less' or (o == 'Equal' and lo_b.v == 'Excluded'): return False
                if hi_b.v != 'Unbounded':
                    o = e.cmp3(k, hi_b.f[0])
                    if o == 'Greater' or (o == 'Equal' and hi_b.v == 'Excluded'): return False
                return True
            return It('list', l=[Agg([Ref([k], 0), Ref(cell, 0)], 'tup') for k, cell in m.items if ok(k)], pos=0)
        def after_lo(k):
            if 'RangeFull' in r.ty or 'RangeTo' in r.ty: return True
            return e.cmp3(k, r.f[0]) != 'Less'
        def before_hi(k):
            if 'RangeFull' in r.ty or 'RangeFrom' in r.ty: return True
            hi = r.f[-1]; o = e.cmp3(k, hi)
            return o != 'Greater' if 'Inclusive' in r.ty else o == 'Less'
        return It('list', l=[Agg([Ref([k], 0), Ref(cell, 0)], 'tup') for k, cell in m.items if after_lo(k) and before_hi(k)], pos=0)

    @R(r' as (Partial)?Ord(<.*>)?>::(partial_)?cmp$')
    def _(e, c, a):
        m_ = re.match(r'^<&*(usize|u8|u16|u32|u64|isize|i8|i16|i32|i64) as', c)
        o = e.cmp3(a[0], a[1], signed=bool(m_ and m_.group(1).startswith('i')))
        o = Enum(o, [], 'Ordering')
        return SOME(o) if 'partial_cmp' in c else o

    # ---------------------------------------------------------------- integers <-> bytes
    INTW = {'u8': 8, 'u16': 16, 'u32': 32, 'u64': 64, 'usize': 64, 'i8': 8, 'i16': 16, 'i32': 32, 'i64': 64, 'isize': 64, 'u128': 128, 'i128': 128}
    @R(r'^core::num::<impl (\w+)>::(to_le_bytes|to_be_bytes|to_ne_bytes)$')
    def _(e, c, a):
        ty, op = re.search(r'impl (\w+)>::(\w+)$', c).groups(); n = INTW[ty] // 8; v = a[0]
        if isinstance(v, bool): v = int(v)
        if isinstance(v, int): bs = [(v >> (8 * i)) & 0xff for i in range(n)]
        else: bs = [z3.simplify(z3.Extract(8 * i + 7, 8 * i, v)) for i in range(n)]
        if op == 'to_be_bytes': bs.reverse()
        return Agg(bs, 'arr')
    @R(r'^core::num::<impl (\w+)>::(from_le_bytes|from_be_bytes|from_ne_bytes)$')
    def _(e, c, a):
        ty, op = re.search(r'impl (\w+)>::(\w+)$', c).groups(); bs = list(deref(a[0]).f)
        if op == 'from_be_bytes': bs.reverse()
        if all(isinstance(b, int) for b in bs):
            v = sum(b << (8 * i) for i, b in enumerate(bs))
            if ty.startswith('i') and v >= 1 << (INTW[ty] - 1): v -= 1 << INTW[ty]
            return v
        return z3.simplify(z3.Concat(*[(b if z3.is_bv(b) else z3.BitVecVal(b, 8)) for b in reversed(bs)]))
    @R(r'^<(\w+) as TryFrom<(\w+)>>::try_from$|^<(\w+) as TryInto<(\w+)>>::try_into$')
    def _(e, c, a):
        m_ = re.match(r'^<(\w+) as (TryFrom|TryInto)<(\w+)>>', c)
        dst, src = (m_.group(1), m_.group(3)) if m_.group(2) == 'TryFrom' else (m_.group(3), m_.group(1))
        if dst not in INTW or src not in INTW: raise EngineError('try_from ' + c)
        v = a[0]; bits = INTW[dst]
        lo, hi = (-(1 << (bits - 1)), (1 << (bits - 1)) - 1) if dst.startswith('i') else (0, (1 << bits) - 1)
        if isinstance(v, int): return OK(v) if lo <= v <= hi else ERR(Agg([], 'TryFromIntError'))
        sw = v.size(); signed_src = src.startswith('i')
        if signed_src: fits = z3.And(v >= lo, v <= hi) if bits < sw or not dst.startswith('i') else z3.BoolVal(True)
        else: fits = z3.ULE(v, hi) if hi < (1 << sw) - 1 else z3.BoolVal(True)
        if not e.branch(fits): return ERR(Agg([], 'TryFromIntError'))
        if bits < sw: return OK(z3.Extract(bits - 1, 0, v))
        if bits > sw: return OK(z3.SignExt(bits - sw, v) if signed_src else z3.ZeroExt(bits - sw, v))
        return OK(v)

    # ---------------------------------------------------------------- std::io::Read on in-memory bytes
    def reader_of(x):
        """a `&mut &[u8]` / Cursor: returns (get_slice, set_slice)"""
        r = x
        while isinstance(r, Ref) and isinstance(r.get(), Ref): r = r.get()
        if isinstance(r, Ref) and isinstance(r.get(), SliceRef): return r
        if isinstance(r, Ref) and isinstance(r.get(), (Vec, Str)):
            v = r.get(); r.set(SliceRef(v.l if isinstance(v, Vec) else v.b)); return r
        raise EngineError(f'not an in-memory reader: {x!r}'[:200])
    @R(r' as (std::io::)?Read>::read_exact$')
    def _(e, c, a):
        r = reader_of(a[0]); s = r.get(); dl, dlo, dhi = bl(a[1]); n = dhi - dlo
        if n > len(s): return ERR(Agg([], 'io::Error:UnexpectedEof'))
        dl[dlo:dhi] = s.l[s.lo:s.lo + n]; r.set(SliceRef(s.l, s.lo + n, s.hi)); return OK(UNIT)
    @R(r' as (std::io::)?Read>::read_to_end$')
    def _(e, c, a):
        r = reader_of(a[0]); s = r.get(); v = deref(a[1]); v.l.extend(s.items()); r.set(SliceRef(s.l, s.hi, s.hi)); return OK(len(s))
    # ---------------------------------------------------------------- more iterator machinery
    @R(r'as Itertools>::(kmerge_by|kmerge)(::<.*)?$')
    def _(e, c, a):
        lists = [E.drain_iter(E.it_of(x)) for x in E.drain_iter(E.it_of(a[0]))]
        out = []
        def less(x, y):
            if 'kmerge_by' in c: return e.branch(e.closure_call(a[1], [Ref([x], 0), Ref([y], 0)]))
            return e.cmp3(x, y) == 'Less'
        while any(lists):
            best = next(i for i, l in enumerate(lists) if l)
            for j in range(best + 1, len(lists)):
                if lists[j] and less(lists[j][0], lists[best][0]): best = j
            out.append(lists[best].pop(0))
        return It('list', l=out, pos=0)
    @R(r'^(std|core)::iter::from_fn::<|^from_fn::<')
    def _(e, c, a): return It('from_fn', f=a[0])
    prev_next = E.it_next
    def it_next5(it):
        if it.kind == 'from_fn': return E.closure_call(it.f, [])
        if it.kind == 'ptw':
            p = it.a
            if p.peeked is None: p.peeked = E.it_next(p.a)
            if p.peeked.v == 'None': return NONE()
            if E.branch(E.closure_call(it.f, [Ref(p.peeked.f, 0)])):
                r = p.peeked; p.peeked = None; return r
            return NONE()
        return prev_next(it)
    E.it_next = it_next5
    @R(r'Peekable::<.*>::next_if::<')
    def _(e, c, a):
        p = deref(a[0])
        if p.peeked is None: p.peeked = E.it_next(p.a)
        if p.peeked.v == 'None': return NONE()
        if e.branch(e.closure_call(a[1], [Ref(p.peeked.f, 0)])):
            r = p.peeked; p.peeked = None; return r
        return NONE()
    @R(r'as (itertools::)?PeekingNext>::peeking_take_while::<|as Itertools>::peeking_take_while::<')
    def _(e, c, a):
        p = deref(a[0])
        if not isinstance(p, It) or p.kind != 'peekable': raise EngineError('peeking_take_while on ' + repr(p))
        return It('ptw', a=p, f=a[1])
    @R(r'^core::num::<impl (usize|u8|u16|u32|u64)>::(is_multiple_of|is_power_of_two|count_ones|leading_zeros|trailing_zeros|pow|abs_diff|div_ceil|next_multiple_of|checked_mul|checked_div|rem_euclid|div_euclid)$')
    def _(e, c, a):
        op = c.rsplit('::', 1)[1]; x = a[0]; y = a[1] if len(a) > 1 else None
        if not isinstance(x, int) or (y is not None and not isinstance(y, int)): raise EngineError('symbolic ' + c)
        if op == 'is_multiple_of': return (x == 0) if y == 0 else x % y == 0
        if op == 'is_power_of_two': return x > 0 and x & (x - 1) == 0
        if op == 'count_ones': return bin(x).count('1')
        if op == 'leading_zeros': return 64 - x.bit_length()
        if op == 'trailing_zeros': return 64 if x == 0 else (x & -x).bit_length() - 1
        if op == 'pow': return x ** y
        if op == 'abs_diff': return abs(x - y)
        if op == 'div_ceil': return -(-x // y)
        if op == 'next_multiple_of': return -(-x // y) * y
        if op == 'checked_mul': return SOME(x * y) if x * y < (1 << 64) else NONE()
        if op == 'checked_div': return SOME(x // y) if y else NONE()
        if op == 'rem_euclid': return x % y
        return x // y
    @R(r'^<(.*) as Into<(.*)>>::into$')
    def _(e, c, a):
        mm = re.match(r'^<(.*) as Into<(.*)>>::into$', c); src, dst = mm.group(1), mm.group(2)
        from .mir import type_key
        if not type_key(dst).startswith(('std::', 'core::', 'alloc::')) and type_key(dst) not in ('String', 'Vec', 'Box', 'BString', 'SmallVec', 'PathBuf', 'Option'):
            try: f = e._find_impl('from', 'From', type_key(dst), 1, src)
            except EngineError: f = None
            if f is not None: return e.call_mir(f, [a[0]])
        for rx, g in E.models:
            if g is not _into and rx.search(c): return g(e, c, a)
        return a[0]
    _into = _
    @R(r'^<(.*) as TryInto<(.*)>>::try_into$')
    def _(e, c, a):
        mm = re.match(r'^<(.*) as TryInto<(.*)>>::try_into$', c); src, dst = mm.group(1), mm.group(2)
        from .mir import type_key
        f = e._find_impl('try_from', 'TryFrom', type_key(dst), 1, src)
        if f is None:          # impls generated by a derive (e.g. prost::Enumeration): match by signature
            cs = [g for g in e.ix.by_simple.get('try_from', []) if len(g.args) == 1 and g.args[0].strip() == src.strip() and type_key(dst) in g.ret]
            if len(cs) == 1: f = cs[0]
        if f is not None: return e.call_mir(f, [a[0]])
        for rx, g in E.models:
            if g is not _try_into and rx.search(c): return g(e, c, a)
        raise EngineError('no model for ' + c)
    _try_into = _
    @R(r'^(std::sync::)?(LazyLock|OnceLock|LazyCell)::<.*>::new$')
    def _(e, c, a): return Agg(list(a), 'LazyLock')
    @R(r'^<(std::sync::)?(LazyLock|LazyCell)<.*> as Deref>::deref$|^(std::sync::)?LazyLock::<.*>::force$')
    def _(e, c, a):
        v = deref(a[0])
        if not (isinstance(v, Agg) and v.ty == 'LazyLock'): raise EngineError(f'LazyLock deref on {v!r}')
        if len(v.f) == 1: v.f.append(e.closure_call(v.f[0], []))
        return Ref(v.f, 1)
    @R(r'^(futures::future::)?(try_join_all|join_all)::<')
    def _(e, c, a):
        futs = E.drain_iter(E.it_of(a[0])); out = []
        for f in futs:
            r = e.poll(f)
            if 'try_join_all' in c:
                if r.v == 'Err': return StubFuture(r)
                out.append(r.f[0])
            else: out.append(r)
        return StubFuture(OK(Vec(out)) if 'try_join_all' in c else Vec(out))
    @R(r'^(std::sync::|alloc::sync::|std::rc::)?(Arc|Rc)::<.*>::new$')
    def _(e, c, a): return Ref([a[0]], 0)
    @R(r'^<(std::sync::|alloc::sync::|std::rc::)?(Arc|Rc)<.*> as (Deref|AsRef<.*>|Borrow<.*>)>::(deref|as_ref|borrow)$')
    def _(e, c, a):
        x = a[0]
        while isinstance(x, Ref) and isinstance(x.get(), Ref): x = x.get()
        return x
    @R(r'^(std::sync::|alloc::sync::)?Arc::<.*>::ptr_eq$')
    def _(e, c, a):
        x, y = a[0], a[1]
        while isinstance(x, Ref) and isinstance(x.get(), Ref): x = x.get()
        while isinstance(y, Ref) and isinstance(y.get(), Ref): y = y.get()
        return x.c is y.c and x.k == y.k
    @R(r'^(std::string::)?String::from_utf8$')
    def _(e, c, a): return OK(Vec(list(deref(a[0]).l), 'String'))
    @R(r'^(std::path::)?Path::join::<')
    def _(e, c, a):
        b = list(bl(a[0])[0][bl(a[0])[1]:bl(a[0])[2]]); p = list(bl(a[1])[0][bl(a[1])[1]:bl(a[1])[2]])
        if p and isinstance(p[0], int) and p[0] == 47: return Vec(p, 'PathBuf')
        if b and not (isinstance(b[-1], int) and b[-1] == 47): b.append(47)
        return Vec(b + p, 'PathBuf')

"""Run Kani proof harnesses of /verif/kani (path-depends on /repo) and report per-harness verdicts."""
import os, subprocess, re, time, shutil
from . import front
VERIF = os.path.dirname(os.path.dirname(os.path.abspath(__file__)))

def run(harnesses, timeout=1500):
    crate = os.path.join(VERIF, 'kani')
    shutil.copy(os.path.join(front.REPO, 'Cargo.lock'), os.path.join(crate, 'Cargo.lock'))
    out = []
    for h in harnesses:
        t0 = time.time()
        env = dict(os.environ, CARGO_NET_OFFLINE='true'); env.pop('RUSTFLAGS', None)
        cmd = ['bash', '-c', f'ulimit -v 25165824; exec timeout {timeout} cargo kani --target-dir {front.CACHE}/kani-target --harness {h} --output-format terse']
        try:
            r = subprocess.run(cmd, cwd=crate, env=env, stdout=subprocess.PIPE, stderr=subprocess.STDOUT, text=True, timeout=timeout + 60)
            txt = r.stdout
        except subprocess.TimeoutExpired:
            txt = 'TIMEOUT'
        verdict = 'inconclusive'
        if 'VERIFICATION:- SUCCESSFUL' in txt: verdict = 'successful'
        elif 'VERIFICATION:- FAILED' in txt and 'Status: ERROR' not in txt and 'out of memory' not in txt.lower(): verdict = 'failed'
        checks = re.findall(r'\*\* (\d+) of (\d+) failed', txt)
        covers = re.findall(r'\*\* (\d+) of (\d+) cover properties satisfied', txt)
        out.append(dict(harness=h, verdict=verdict, wall_s=round(time.time() - t0, 1), failed_checks=checks[-1] if checks else None, covers=covers[-1] if covers else None,
                        tail=txt[-600:] if verdict != 'successful' else ''))
    return out

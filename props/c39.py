"""C39  Log graph edges preserve ancestry  (lib/src/default_index/revset_graph_iterator.rs)

Real code from MIR: RevsetGraphWalk::{new, next, try_next, next_index_position, consume_to, pop_edges_from_internal_commit,
new_edges_from_internal_commit, edges_from_external_commit, remove_transitive_edges}, reachable_positions, GraphEdge::*,
CommitIndexEntry::{parents, position, ...}, PositionsBitSet::*, and the EagerRevset position walk that feeds it.
Symbolic: the whole parent relation of the commit graph (props/graphstub.py).  The shown set is every subset of the positions.
"""
import itertools, re, z3
from mirsym.harness import *
from mirsym.engine import NONE, SOME, OK, It, UNIT, Panic
from props.graphstub import SymGraph, GP, CID, plist, subset

ID = 'C39'
TECHNIQUE = 'symbolic execution of rustc MIR (path-forking) + z3 SMT queries per path; commit graph fully symbolic behind abstract index segments; violations reported on the solver verdict (pub(super) code; no native replay)'
CRATES = ['jj-lib']
NATIVE = None
NATIVE_CONFIRM = False
BOUNDS = {
    'quick': 'every commit DAG on <=4 positions (any parent sets incl. octopus merges, index split over two segments), every shown subset of the positions, with and without skipping transitive edges',
    'thorough': 'the same on <=5 positions',
}
ASSUMPTIONS = [
    'the commit index is the abstract segment stack of props/graphstub.py (C18): parents smaller than the commit, generation numbers consistent; commit ids are one byte = the position',
    'the shown set is an explicit commit set (EagerRevset); lazily evaluated revsets feed the same position stream interface (C19 covers what they yield)',
    'the topological regrouping and graph reversal helpers of lib/src/graph.rs and the ASCII/Unicode renderer are NOT covered; VecDeque/BTreeMap/Rc are native models',
]
BUDGET = {'quick': 900, 'thorough': 3000}
F = 'lib/src/default_index/revset_graph_iterator.rs'
FE = 'lib/src/default_index/revset_engine.rs'

def jobs(tier):
    out = []
    for n in ((2, 3, 4) if tier == 'quick' else (2, 3, 4, 5)):
        for skip in (False, True):
            out.append(dict(name=f'graph-n{n}-{"skip" if skip else "all"}', n=n, skip=skip, rung=0 if n <= 3 else n, weight=8 ** n, split=('enumerate', 6) if n >= 4 else None))
    return out

def run_job(ix, job, tier):
    n = job['n']; P = list(range(n)); skip = job['skip']
    G = SymGraph(P, [n // 2] if n >= 2 else [], 'asc'); par, reach = G.par, G.reach
    evaluate = ix.find_method(FE, 'EvaluationContext', 'evaluate')
    new = ix.find_method(F, 'RevsetGraphWalk', 'new'); nxt = ix.find_method(F, 'RevsetGraphWalk', 'next', trait='RevWalk')
    cindex = Agg([Opaque('commits'), Opaque('changed_paths')], 'CompositeIndex')
    over = list(G.over) + [(re.compile(r'CompositeIndex::commits$'), lambda e, c, a: G.index),
                           (re.compile(r'<&?CompositeIndex as AsCompositeIndex>::as_composite$'), lambda e, c, a: a[0])]
    def run(e):
        S = subset(e, P)
        ex = Enum('Commits', [Vec([CID(p) for p in S], 'Vec')], 'ResolvedExpression')
        ctx = mk_struct(ix, FE, 'EvaluationContext', store=Opaque('store'), index=Ref([cindex], 0))
        r = e.call_mir(evaluate, [Ref([ctx], 0), Ref([ex], 0)])
        walk = e.call('<dyn InternalRevset as InternalRevset>::positions', [r.f[0]])
        gw = e.call_mir(new, [walk, skip])
        nodes = []
        for _ in range(n + 2):
            it = e.call_mir(nxt, [Ref([gw], 0), Ref([cindex], 0)])
            if it.v == 'None': break
            if it.f[0].v != 'Ok': raise EngineError('graph walk returned an error')
            node, edges = it.f[0].f[0].f
            x = deref(node.f[0]).l[0]
            es = [(deref(ed.f[0].f[0]).l[0], ed.f[1].v) for ed in deref(edges).l]
            nodes.append((x, es))
        else: raise EngineError('graph walk does not terminate')
        return S, nodes
    def obligations(kind, out, pc, e):
        S, nodes = out
        shown = [x for x, _ in nodes]
        yield 'the shown commits are exactly the set, newest first (every commit before its ancestors)', shown == sorted(S, reverse=True)
        inS = lambda p: p in S
        # via[x, t]: t reachable from x by a parent path whose intermediate commits are all outside the shown set
        via = {}
        for x in P:
            for t in reversed([q for q in P if q < x]):
                via[x, t] = zor([par[x, t]] + [z3.And(par[x, m], via[m, t]) for m in P if t < m < x and not inS(m)])
        via2 = {(x, t): zor([z3.And(par[x, m], via[m, t]) for m in P if t < m < x and not inS(m)]) for x in P for t in P if t < x}
        for x, es in nodes:
            for t, ty in es:
                if not isinstance(t, int) or t >= x: yield f'edge {x}->{t} points to an older commit', False; continue
                if ty == 'Direct': yield f'direct edge {x}->{t}: {t} is shown and is a parent of {x}', (par[x, t] if inS(t) else False)
                elif ty == 'Indirect': yield f'indirect edge {x}->{t}: {t} is shown and is an ancestor reached only through commits outside the shown set', (via2[x, t] if inS(t) else False)
                else: yield f'missing edge {x}->{t}: {t} is not shown and is an ancestor reached only through commits outside the shown set', (via[x, t] if not inS(t) else False)
            tg = [t for t, ty in es if ty != 'Missing']
            if not skip:
                for t in S:
                    if t < x: yield f'(all edges) {x}->{t} is an edge iff {t} is a parent or reached through hidden commits only', (via[x, t] if t in tg else z3.Not(via[x, t]))
        # every ancestry relation between shown commits is implied by the edges (transitively)
        adj = {x: set(t for t, ty in es if ty != 'Missing') for x, es in nodes}
        clo = {x: set() for x in shown}
        for x in sorted(shown):                       # ascending: targets are smaller
            for t in adj.get(x, ()):
                clo[x].add(t); clo[x] |= clo.get(t, set())
        for x in shown:
            for y in shown:
                if y < x:
                    if y in clo[x]: yield f'edges imply {y} is an ancestor of {x}: true in the graph', reach[x, y]
                    else: yield f'{y} is not implied to be an ancestor of {x} by the edges: not an ancestor in the graph', z3.Not(reach[x, y])
    def sample(kind, out, pc): return dict(job=job['name'], shown=out[0], nodes=str(out[1]), path_condition=[str(c)[:60] for c in pc[:8]])
    return explore_job(ix, job['name'], run, obligations, overrides=over, sample=sample, deadline=job.get('deadline'), split=job.get('split'))

def compare_native(case, native):
    return True, ''

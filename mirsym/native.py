"""Native replay runner: a small Rust binary (path-depends on /repo/lib, rebuilt from the current tree) that runs the
real public API on concrete inputs and evaluates the property natively."""
import os, subprocess, json, shutil, fcntl, sys, time
from . import front

VERIF = os.path.dirname(os.path.dirname(os.path.abspath(__file__)))
CRATE = os.path.join(VERIF, 'replay')
_built = {}

def build(profile='dev'):
    if profile in _built: return _built[profile]
    tdir = os.path.join(front.CACHE, 'replay-target')
    os.makedirs(tdir, exist_ok=True)
    with open(os.path.join(front.CACHE, '.lock-replay'), 'w') as lk:
        fcntl.flock(lk, fcntl.LOCK_EX)
        lock = os.path.join(CRATE, 'Cargo.lock')
        # keep dependency versions pinned to the repository's lock file
        if not os.path.exists(lock) or os.path.getmtime(lock) < os.path.getmtime(os.path.join(front.REPO, 'Cargo.lock')):
            shutil.copy(os.path.join(front.REPO, 'Cargo.lock'), lock)
        env = dict(os.environ, CARGO_NET_OFFLINE='true', CARGO_TARGET_DIR=tdir, CARGO_TERM_COLOR='never', RUSTUP_TOOLCHAIN='stable')
        env.pop('RUSTFLAGS', None)
        cmd = ['cargo', 'build', '--offline', '--manifest-path', os.path.join(CRATE, 'Cargo.toml')] + (['--release'] if profile == 'release' else [])
        t0 = time.time()
        r = subprocess.run(cmd, env=env, stdout=subprocess.PIPE, stderr=subprocess.STDOUT, text=True)
        if r.returncode != 0:
            raise RuntimeError('replay runner build failed:\n' + r.stdout[-3000:])
        if time.time() - t0 > 5: print(f'[native] built replay runner in {time.time() - t0:.0f}s', file=sys.stderr)
    _built[profile] = os.path.join(tdir, 'release' if profile == 'release' else 'debug', 'jjreplay')
    return _built[profile]

def run(prop, cases, timeout=600, profile='dev'):
    exe = build(profile)
    inp = '\n'.join(json.dumps(c) for c in cases) + '\n'
    r = subprocess.run([exe, prop], input=inp, stdout=subprocess.PIPE, stderr=subprocess.PIPE, text=True, timeout=timeout)
    outs = [json.loads(l) for l in r.stdout.splitlines() if l.strip()]
    if len(outs) != len(cases):
        raise RuntimeError(f'replay runner returned {len(outs)} results for {len(cases)} cases (exit {r.returncode}): {r.stderr[-1000:]}')
    return outs

"""MIR front end: (re)generate rustc MIR text for a crate of /repo's *current working tree*.

One rustc run per crate (nightly, -Zunpretty=mir) gives the optimized MIR of every body on stdout and, via
-Zdump-mir=StateTransform, the pre-state-machine body of every async fn / async closure.  Results are cached in
$VERIF_CACHE keyed by a content hash of the crate's sources, so an unchanged tree re-uses the text and any edit
under /repo re-dumps.  Nothing under /repo is written: the --cfg nonce makes rustc run even if cargo thinks the
crate is fresh, and the cargo target dir lives in the cache.
"""
import os, sys, hashlib, subprocess, time, shutil, fcntl, glob

REPO = os.environ.get('VERIF_REPO', '/repo')
CACHE = os.environ.get('VERIF_CACHE', '/var/tmp/jj-verif-cache')
CRATES = {           # crate -> (dirs whose contents determine its MIR)
    'jj-core': ['core'],
    'jj-lib': ['core', 'lib'],
    'jj-cli': ['core', 'lib', 'cli'],
}
EXTS = ('.rs', '.pest', '.proto', '.toml', '.json')

def tree_hash(dirs):
    h = hashlib.sha256()
    for extra in ('Cargo.lock', 'Cargo.toml'):
        p = os.path.join(REPO, extra)
        if os.path.exists(p): h.update(extra.encode()); h.update(open(p, 'rb').read())
    for d in dirs:
        base = os.path.join(REPO, d)
        for root, dn, files in os.walk(base):
            dn[:] = sorted(x for x in dn if x not in ('target', 'tests', 'benches', 'docs', 'testing') or root != base or x == 'testing')
            if root == base: dn[:] = [x for x in dn if x not in ('tests', 'benches', 'target')]
            for f in sorted(files):
                if f.endswith(EXTS):
                    p = os.path.join(root, f)
                    h.update(os.path.relpath(p, REPO).encode()); h.update(b'\0'); h.update(open(p, 'rb').read()); h.update(b'\0')
    return h.hexdigest()[:20]

def log(*a):
    print('[front]', *a, file=sys.stderr, flush=True)

def ensure_dump(crate, debug_assertions=False):
    """returns (mir_text_path, coroutine_text_path, info dict)"""
    hsh = tree_hash(CRATES[crate])
    tag = f"{crate}-{'da-' if debug_assertions else ''}{hsh}"
    out = os.path.join(CACHE, 'mir', tag)
    mir, coro = os.path.join(out, 'crate.mir'), os.path.join(out, 'coro.mir')
    info = dict(crate=crate, source_hash=hsh, cached=True, dump_s=0.0)
    os.makedirs(os.path.join(CACHE, 'mir'), exist_ok=True)
    with open(os.path.join(CACHE, 'mir', f'.lock-{crate}'), 'w') as lk:
        fcntl.flock(lk, fcntl.LOCK_EX)
        if os.path.exists(os.path.join(out, 'ok')):
            return mir, coro, info
        t0 = time.time()
        tmp = out + '.tmp'; shutil.rmtree(tmp, ignore_errors=True); os.makedirs(os.path.join(tmp, 'dump'))
        env = dict(os.environ, CARGO_INCREMENTAL='0', CARGO_NET_OFFLINE='true', CARGO_TARGET_DIR=os.path.join(CACHE, 'target' if os.path.realpath(REPO) == '/repo' else 'target-' + hashlib.sha256(os.path.realpath(REPO).encode()).hexdigest()[:10]),
                   RUSTUP_TOOLCHAIN='nightly', CARGO_TERM_COLOR='never')
        env.pop('RUSTFLAGS', None)
        cmd = ['cargo', 'rustc', '--offline', '-p', crate, '--lib', '--', '--cfg', f'verif_nonce_{hsh}{int(time.time())}',
               '-Zunpretty=mir', '-Zmir-include-spans=on', '-Zdump-mir=StateTransform', f'-Zdump-mir-dir={tmp}/dump',
               '-C', f"debug-assertions={'on' if debug_assertions else 'off'}", '-C', 'overflow-checks=on', '-A', 'unexpected_cfgs']
        log('dumping MIR of', crate, '(source hash', hsh + ')')
        with open(os.path.join(tmp, 'crate.mir'), 'wb') as fo, open(os.path.join(tmp, 'cargo.log'), 'wb') as fe:
            r = subprocess.run(cmd, cwd=REPO, env=env, stdout=fo, stderr=fe)
        if r.returncode != 0 or os.path.getsize(os.path.join(tmp, 'crate.mir')) < 1000:
            sys.stderr.write(open(os.path.join(tmp, 'cargo.log'), errors='replace').read()[-4000:])
            raise RuntimeError(f'MIR dump of {crate} failed (exit {r.returncode}); the tree under {REPO} may not compile')
        # keep only the pre-transform bodies of coroutines, concatenated
        n = 0
        with open(os.path.join(tmp, 'coro.mir'), 'w') as fo:
            for f in sorted(os.listdir(os.path.join(tmp, 'dump'))):
                if not f.endswith('StateTransform.before.mir'): continue
                txt = open(os.path.join(tmp, 'dump', f)).read()
                i = txt.find('\nfn ')
                if i < 0: continue
                body = txt[i + 1:]
                if '\nyields ' not in body[:body.find('{\n') + 400] and 'yields ' not in body.split('\n', 2)[1]: continue
                fo.write('// ---- ' + f + '\n' + body + '\n'); n += 1
        shutil.rmtree(os.path.join(tmp, 'dump'))
        open(os.path.join(tmp, 'ok'), 'w').write(str(n))
        # drop older dumps of the same crate
        olds = [o for o in glob.glob(os.path.join(CACHE, 'mir', f'{crate}-*')) if o not in (out, tmp) and not o.endswith('.tmp') and ('-da-' in o) == debug_assertions]
        olds.sort(key=os.path.getmtime)
        for old in olds[:-12]: shutil.rmtree(old, ignore_errors=True)         # keep a few recent dumps (switching between trees is common)
        shutil.rmtree(out, ignore_errors=True); os.rename(tmp, out)
        info.update(cached=False, dump_s=round(time.time() - t0, 1), coroutines=n)
        log(f'dumped {crate}: {os.path.getsize(mir) >> 20} MB, {n} coroutine bodies, {info["dump_s"]} s')
    return mir, coro, info

if __name__ == '__main__':
    for c in sys.argv[1:] or ['jj-core', 'jj-lib']:
        print(ensure_dump(c))

"""Further std/itertools models (registered with priority over models.py / models2.py)."""
import re, itertools
import z3
from .engine import *
from .models2 import HashTableM, BTreeMapM, HasherM
from .models import HashMapM

def register3(E):
    R = lambda rx: (lambda f: (E.models.insert(0, (re.compile(rx), f)), f)[1])
    eq_val = E.eq_val; clone_val = E.clone_val

    def sbytes(x):
        x = deref(x)
        if isinstance(x, Str): return x.b
        if isinstance(x, Vec) and x.ty in ('String', 'BString', 'Vec'): return x.l
        if isinstance(x, SliceRef): return x.items()
        raise EngineError(f'not a string: {x!r}')
    E.sbytes = sbytes
    def sref(b): return Ref([Str(b)], 0)

    STR = r'^core::str::<impl str>::'; STR0 = STR
    # ---- tracing: modelled as disabled (no subscriber); spans and events are opaque no-ops
    @R(r'^<tracing::Level as PartialOrd<.*>>::(le|lt|ge|gt)$')
    def _(e, c, a): return False
    @R(r'^tracing::|^LevelFilter::|^Interest::|^DefaultCallsite::|^<DefaultCallsite as |^FieldSet::')
    def _(e, c, a): return Agg([], 'tracing')

    # ---- identity-like conversions
    @R(r'as AsRef<.*>>::as_ref$|as Borrow<.*>>::borrow$|as (std::ops::)?Deref>::deref$')
    def _(e, c, a):
        v = deref(a[0])
        if isinstance(v, Vec) and v.ty in ('String', 'BString'): return sref(v.l) if False else a[0]
        if isinstance(v, Vec) and not ('String' in c): return SliceRef(v.l)
        if isinstance(a[0], Ref) and isinstance(a[0].get(), Ref): return a[0].get()
        return a[0]
    @R(r'as ToOwned>::to_owned$')
    def _(e, c, a):
        v = deref(a[0])
        if isinstance(v, Str): return Vec(list(v.b), 'BString' if 'BStr' in c else 'String')
        if isinstance(v, SliceRef): return Vec([clone_val(x) for x in v.items()], 'BString' if 'BStr' in c else 'Vec')
        return clone_val(v)

    # ---- HashMap as association list (keys compared with ==, order nondeterministic)
    def hm_find(e, hm, key):
        for i, (k, v) in enumerate(hm.items):
            if e.branch(eq_val(k, key)): return i
        return None
    @R(r'^(std::collections::)?HashMap::<.*>::contains_key::<')
    def _(e, c, a): return hm_find(e, deref(a[0]), a[1]) is not None
    @R(r'^(std::collections::)?HashMap::<.*>::insert$')
    def _(e, c, a):
        hm = deref(a[0]); i = hm_find(e, hm, a[1])
        if i is None: hm.items.append((a[1], a[2])); return NONE()
        old = hm.items[i][1]; hm.items[i] = (hm.items[i][0], a[2]); return SOME(old)
    @R(r'^(std::collections::)?HashMap::<.*>::get(_mut)?::<')
    def _(e, c, a):
        hm = deref(a[0]); i = hm_find(e, hm, a[1])
        if i is None: return NONE()
        return SOME(HMValRef(hm, i))
    @R(r'^(std::collections::)?HashMap::<.*>::is_empty$')
    def _(e, c, a): return len(deref(a[0]).items) == 0
    @R(r'^(std::collections::)?HashMap::<.*>::(iter|values|keys)$')
    def _(e, c, a):
        hm = deref(a[0]); p = e.pick_order(len(hm.items))
        if c.endswith('iter'): return It('list', l=[Agg([HMKeyRef(hm, i), HMValRef(hm, i)], 'tup') for i in p], pos=0)
        if c.endswith('values'): return It('list', l=[HMValRef(hm, i) for i in p], pos=0)
        return It('list', l=[HMKeyRef(hm, i) for i in p], pos=0)
    @R(r'^<(std::collections::)?HashMap<.*> as Default>::default$')
    def _(e, c, a): return HashMapM()

    # ---- iterator folds
    def it_of(x):
        if isinstance(x, It): return x
        x0 = deref(x)
        if isinstance(x0, It): return x0
        if isinstance(x0, Agg) and x0.ty and x0.ty not in ('arr', 'tup') and 'Range' not in x0.ty and E._find_impl('next', 'Iterator', x0.ty, 1) is not None: return It('crate', obj=[x0])
        raise EngineError(f'it_of {x0!r}')
    @R(r'as Iterator>::fold::<')
    def _(e, c, a):
        it = it_of(a[0]); acc = a[1]
        while True:
            n = e.it_next(it)
            if n.v == 'None': return acc
            acc = e.closure_call(a[2], [acc, n.f[0]])
    @R(r'as Iterator>::try_fold::<')
    def _(e, c, a):
        it = it_of(a[0]); acc = a[1]
        while True:
            n = e.it_next(it)
            if n.v == 'None':
                return SOME(acc) if 'Option<' in c.split('try_fold::<')[1] else OK(acc)
            r = e.closure_call(a[2], [acc, n.f[0]])
            if r.v in ('None', 'Err'): return r
            acc = r.f[0]
    @R(r'^((std|core)::iter::)?successors::<')
    def _(e, c, a): return It('successors', cur=a[0], f=a[1])
    base_next = E.it_next
    def it_next3(it):
        if it.kind == 'successors':
            cur = it.cur
            if cur.v == 'None': return cur
            it.cur = E.closure_call(it.f, [Ref(cur.f, 0)])
            return cur
        return base_next(it)
    E.it_next = it_next3

    # ---- async byte readers (futures::io): Cursor / Take / Chain over byte lists; every read completes at once
    class ReaderM:
        def __init__(self, kind, **kw): self.kind = kind; self.__dict__.update(kw)
        def read_all(self, limit=None):
            if self.kind == 'cursor':
                n = len(self.data) - self.pos if limit is None else min(limit, len(self.data) - self.pos)
                out = self.data[self.pos:self.pos + n]; self.pos += n; return out
            if self.kind == 'take':
                lim = self.n if limit is None else min(self.n, limit)
                out = rd(self.inner).read_all(lim); self.n -= len(out); return out
            if self.kind == 'chain':
                out = rd(self.a).read_all(limit)
                if limit is None or len(out) < limit: out = out + rd(self.b).read_all(None if limit is None else limit - len(out))
                return out
            raise EngineError('reader kind ' + self.kind)
        def __repr__(self): return f'<reader {self.kind}>'
    E.ReaderM = ReaderM
    def rd(x):
        x = deref(x)
        while isinstance(x, Agg) and x.ty in ('Pin', 'Box') : x = deref(x.f[0])
        if isinstance(x, ReaderM): return x
        if isinstance(x, (Str, SliceRef)) or (isinstance(x, Vec)):      # &[u8] implements AsyncRead
            raise EngineError('byte-slice reader must be wrapped by the harness: ' + repr(x)[:80])
        raise EngineError(f'not a reader: {x!r}')
    E.rd = rd
    @R(r'^(futures::io::)?Cursor::<.*>::new$')
    def _(e, c, a):
        v = deref(a[0]); data = list(v.l) if isinstance(v, Vec) else list(sbytes(v))
        return ReaderM('cursor', data=data, pos=0)
    @R(r' as AsyncReadExt>::take$')
    def _(e, c, a):
        if not isinstance(a[1], int): raise EngineError('symbolic take limit')
        return ReaderM('take', inner=a[0], n=a[1])
    @R(r' as AsyncReadExt>::chain::<')
    def _(e, c, a): return ReaderM('chain', a=a[0], b=a[1])
    @R(r' as AsyncReadExt>::read_to_end$')
    def _(e, c, a):
        out = rd(a[0]).read_all(); deref(a[1]).l.extend(out)
        return StubFuture(OK(len(out)))
    @R(r'^Box::<.*(AsyncRead|Cursor|impl ).*>::new$')
    def _(e, c, a): return a[0]

    # ---- byte-slice helpers (bstr / core::slice)
    def bl(x):
        """(list, lo, hi) view of a byte container"""
        x = deref(x)
        while isinstance(x, Agg) and len(x.f) == 1 and x.ty not in ('arr', 'tup'): x = deref(x.f[0])          # newtypes over Vec/str (BString, RefName, ...)
        if isinstance(x, Str): return x.b, 0, len(x.b)
        if isinstance(x, SliceRef): return x.l, x.lo, x.hi
        if isinstance(x, Vec): return x.l, 0, len(x.l)
        if isinstance(x, Agg) and x.ty == 'arr': return x.f, 0, len(x.f)
        raise EngineError(f'not bytes: {x!r}')
    E.bl = bl
    @R(r'as ByteSlice>::lines_with_terminator$')
    def _(e, c, a):
        l, lo, hi = bl(a[0]); out = []; start = lo
        for i in range(lo, hi):
            if e.branch(l[i] == 10): out.append(SliceRef(l, start, i + 1)); start = i + 1
        if start < hi: out.append(SliceRef(l, start, hi))
        return It('list', l=out, pos=0)
    @R(r'^core::slice::<impl \[.*\]>::(strip_suffix|strip_prefix)::<')
    def _(e, c, a):
        l, lo, hi = bl(a[0]); pl, plo, phi = bl(a[1]); p = pl[plo:phi]; n = len(p)
        if n > hi - lo: return NONE()
        at = hi - n if 'strip_suffix' in c else lo
        cs = []
        for x, y in zip(l[at:at + n], p):
            if isinstance(x, int) and isinstance(y, int):
                if x != y: return NONE()
            else: cs.append(x == y)
        ok = True if not cs else (cs[0] if len(cs) == 1 else z3.And(*cs))
        if not e.branch(ok): return NONE()
        return SOME(SliceRef(l, lo, hi - n) if 'strip_suffix' in c else SliceRef(l, lo + n, hi))
    @R(r'^core::slice::<impl \[.*\]>::(starts_with|ends_with)$')
    def _(e, c, a):
        l, lo, hi = bl(a[0]); pl, plo, phi = bl(a[1]); p = pl[plo:phi]; n = len(p)
        if n > hi - lo: return False
        at = hi - n if 'ends_with' in c else lo
        return e.branch(E.eq_val(SliceRef(l, at, at + n), SliceRef(pl, plo, phi)))
    @R(r'^core::slice::<impl \[.*\]>::as_slice$|^<\[u8(; \d+)?\] as AsRef<\[u8\]>>::as_ref$|^(core|std)::array::<impl \[.*\]>::as_slice$')
    def _(e, c, a):
        l, lo, hi = bl(a[0]); return SliceRef(l, lo, hi)
    @R(r'^core::slice::<impl \[.*\]>::get(_mut)?::<(.*)>$')
    def _(e, c, a):
        l, lo, hi = bl(a[0]); idx = a[1]
        if isinstance(idx, int): return SOME(Ref(l, lo + idx)) if idx < hi - lo else NONE()
        if isinstance(idx, Agg) and idx.ty and 'Range' in idx.ty:
            s_, t_ = (idx.f[0], idx.f[1]) if len(idx.f) == 2 else (idx.f[0], hi - lo)
            if 'RangeTo' in idx.ty and len(idx.f) == 1: s_, t_ = 0, idx.f[0]
            if not (isinstance(s_, int) and isinstance(t_, int)): raise EngineError('symbolic range in slice::get')
            return SOME(SliceRef(l, lo + s_, lo + t_)) if s_ <= t_ <= hi - lo else NONE()
        raise EngineError(f'slice::get index {idx!r}')
    @R(r'^core::slice::<impl \[.*\]>::(first|last)$')
    def _(e, c, a):
        l, lo, hi = bl(a[0])
        if hi == lo: return NONE()
        return SOME(Ref(l, lo if c.endswith('first') else hi - 1))
    @R(r'Option::<.*>::or_else::<')
    def _(e, c, a): return a[0] if a[0].v == 'Some' else e.closure_call(a[1], [])
    @R(r'Option::<.*>::or$')
    def _(e, c, a): return a[0] if a[0].v == 'Some' else a[1]
    @R(r'Option::<.*>::and_then::<')
    def _(e, c, a): return e.closure_call(a[1], [a[0].f[0]]) if a[0].v == 'Some' else NONE()
    @R(r'Option::<.*>::ok_or::<|Option::<.*>::ok_or$')
    def _(e, c, a): return OK(a[0].f[0]) if a[0].v == 'Some' else ERR(a[1])

    # ---- abstract characters: a str may be a list of tokens ('c', id, k, n) = k-th of the n UTF-8 bytes of abstract char `id`
    def is_tok(b): return isinstance(b, tuple) and b and b[0] == 'c'
    def str_chars(s):
        """[(offset, char value, nbytes)] of a byte/token list; plain ASCII ints are 1-byte chars"""
        out = []; i = 0
        while i < len(s):
            b = s[i]
            if is_tok(b):
                if b[2] != 0: raise EngineError('string starts inside a character')
                out.append((i, CharM(b[1], b[3]), b[3])); i += b[3]
            elif isinstance(b, int):
                if b >= 0x80: raise EngineError('non-ASCII concrete byte in char iteration')
                out.append((i, b, 1)); i += 1
            else: raise EngineError('char iteration over symbolic bytes (use abstract characters)')
        return out
    def check_boundary(s, i):
        if 0 < i < len(s) and is_tok(s[i]) and s[i][2] != 0: raise Panic(f'byte index {i} is not a char boundary')
    E.check_boundary = check_boundary
    @R(STR0 + r'char_indices$')
    def _(e, c, a): return It('list', l=[Agg([o, ch], 'tup') for o, ch, _ in str_chars(sbytes(a[0]))], pos=0)
    @R(STR0 + r'chars$')
    def _(e, c, a): return It('list', l=[ch for o, ch, _ in str_chars(sbytes(a[0]))], pos=0)
    @R(r'^(core::)?char::methods::<impl char>::len_utf8$|^char::len_utf8$')
    def _(e, c, a): return a[0].n if isinstance(a[0], CharM) else 1
    @R(STR0 + r'(trim_start_matches|trim_end_matches)::<')
    def _(e, c, a):
        s = sbytes(a[0]); chars = str_chars(s)
        if 'trim_start' in c:
            cut = len(s)
            for o, ch, n in chars:
                if not e.branch(e.closure_call(a[1], [ch])): cut = o; break
            return sref(s[cut:])
        cut = 0
        for o, ch, n in reversed(chars):
            if not e.branch(e.closure_call(a[1], [ch])): cut = o + n; break
        return sref(s[:cut])
    @R(STR0 + r'is_char_boundary$')
    def _(e, c, a):
        s = sbytes(a[0]); i = a[1]
        return i == len(s) or (i < len(s) and not (is_tok(s[i]) and s[i][2] != 0))

    # ---- integer method family (symbolic aware)
    def isz(x): return z3.is_bv(x)
    def ult(x, y): return z3.ULT(x, y) if (isz(x) or isz(y)) else x < y
    INT = r'^core::num::<impl (usize|u8|u16|u32|u64)>::'
    @R(INT + r'saturating_sub$')
    def _(e, c, a):
        x, y = a
        if isinstance(x, int) and isinstance(y, int): return max(0, x - y)
        return z3.If(ult(x, y), z3.BitVecVal(0, (x if isz(x) else y).size()), x - y)
    @R(INT + r'(min|max)$')
    def _(e, c, a):
        x, y = a
        if isinstance(x, int) and isinstance(y, int): return min(x, y) if c.endswith('min') else max(x, y)
        return z3.If(ult(x, y), x, y) if c.endswith('min') else z3.If(ult(x, y), y, x)
    @R(INT + r'checked_(sub|add)$')
    def _(e, c, a):
        x, y = a
        if isinstance(x, int) and isinstance(y, int):
            r = x - y if 'sub' in c else x + y
            return SOME(r) if 0 <= r < (1 << 64) else NONE()
        w = (x if isz(x) else y).size(); X = x if isz(x) else z3.BitVecVal(x, w); Y = y if isz(y) else z3.BitVecVal(y, w)
        ok = z3.UGE(X, Y) if 'sub' in c else z3.BVAddNoOverflow(X, Y, False)
        return SOME(X - Y if 'sub' in c else X + Y) if e.branch(ok) else NONE()
    @R(INT + r'wrapping_(sub|add)$')
    def _(e, c, a):
        x, y = a
        if isinstance(x, int) and isinstance(y, int): return (x - y if 'sub' in c else x + y) % (1 << 64)
        return x - y if 'sub' in c else x + y
    @R(r'^(std::cmp|core::cmp)::(max|min)::<(usize|u8|u32|u64)>$')
    def _(e, c, a):
        x, y = a
        if isinstance(x, int) and isinstance(y, int): return min(x, y) if '::min::' in c else max(x, y)
        return z3.If(ult(x, y), x, y) if '::min::' in c else z3.If(ult(x, y), y, x)

    # ---- ordering
    PRIM = r'(usize|u8|u16|u32|u64|u128|isize|i8|i16|i32|i64|i128|char|bool)'
    def prim_lt(ty, x, y):
        if isinstance(x, bool): x = int(x)
        if isinstance(y, bool): y = int(y)
        if isinstance(x, int) and isinstance(y, int): return x < y
        if z3.is_bv(x) or z3.is_bv(y): return (x < y) if ty.startswith('i') else z3.ULT(x, y)
        return x < y
    def prim_eq(x, y):
        r = (x == y); return bool(r) if isinstance(r, bool) else r
    def ordering(v): return Enum(v, [], 'Ordering')
    @R(r'^<' + PRIM + r' as (Partial)?Ord>::(partial_)?cmp$')
    def _(e, c, a):
        ty = re.match(r'^<(\w+) ', c).group(1); x, y = deref(a[0]), deref(a[1])
        if e.branch(prim_lt(ty, x, y)): o = ordering('Less')
        elif e.branch(prim_eq(x, y)): o = ordering('Equal')
        else: o = ordering('Greater')
        return SOME(o) if 'partial_cmp' in c else o
    @R(r'^<' + PRIM + r' as PartialOrd>::(lt|le|gt|ge)$')
    def _(e, c, a):
        ty = re.match(r'^<(\w+) ', c).group(1); x, y = deref(a[0]), deref(a[1]); op = c.rsplit('::', 1)[1]
        lt, gt = prim_lt(ty, x, y), prim_lt(ty, y, x)
        neg = lambda b: (not b) if isinstance(b, bool) else z3.Not(b)
        return {'lt': lt, 'gt': gt, 'le': neg(gt), 'ge': neg(lt)}[op]
    @R(r'^<' + PRIM + r' as Ord>::(max|min)$')
    def _(e, c, a):
        ty = re.match(r'^<(\w+) ', c).group(1); x, y = a[0], a[1]; lt = prim_lt(ty, x, y)
        if isinstance(lt, bool): return (y if lt else x) if c.endswith('max') else (x if lt else y)
        return z3.If(lt, y, x) if c.endswith('max') else z3.If(lt, x, y)
    @R(r' as PartialOrd(<.*>)?>::(lt|le|gt|ge)$| as Ord>::(max|min)$')
    def _(e, c, a):
        """default methods of PartialOrd/Ord on a crate type: go through the type's own partial_cmp/cmp (MIR)"""
        x = deref(a[0]); ty = getattr(x, 'ty', None); op = c.rsplit('::', 1)[1]
        if isinstance(x, (int, bool)) or z3.is_expr(x):              # primitive operands (this handler has priority over the primitive ones)
            pty = (re.match(r'^<(\w+) ', c) or [None, 'usize'])[1]; y = deref(a[1])
            lt, gt = prim_lt(pty, x, y), prim_lt(pty, y, x)
            neg = lambda b: (not b) if isinstance(b, bool) else z3.Not(b)
            if op in ('max', 'min'):
                if isinstance(lt, bool): return (y if lt else x) if op == 'max' else (x if lt else y)
                return z3.If(lt, y, x) if op == 'max' else z3.If(lt, x, y)
            return {'lt': lt, 'gt': gt, 'le': neg(gt), 'ge': neg(lt)}[op]
        if ty == 'tracing': return False              # tracing is modelled as disabled
        if isinstance(x, (SliceRef, Vec, Str)) or (isinstance(x, Agg) and ty in ('arr', 'tup')) or (isinstance(x, Enum) and ty == 'Option'):
            o = e.cmp3(x, a[1])                           # lexicographic comparison of sequences / tuples / options
            if op in ('max', 'min'): return (a[1] if o != 'Greater' else a[0]) if op == 'max' else (a[0] if o != 'Greater' else a[1])
            return {'lt': o == 'Less', 'le': o != 'Greater', 'gt': o == 'Greater', 'ge': o != 'Less'}[op]
        if ty is None: raise EngineError('ordering of ' + repr(x))
        if op in ('max', 'min'):
            f = e._find_impl('cmp', 'Ord', ty, 2)
            o = e.call_mir(f, [Ref([a[0]], 0), Ref([a[1]], 0)]).v if f is not None else e.cmp3(a[0], a[1])        # std wrappers (Reverse, ..): structural
            return (a[1] if o != 'Greater' else a[0]) if op == 'max' else (a[0] if o != 'Greater' else a[1])
        f = e._find_impl('partial_cmp', 'PartialOrd', ty, 2)
        if f is None: o = e.cmp3(a[0], a[1])
        else:
            r = e.call_mir(f, [a[0] if isinstance(a[0], Ref) else Ref([a[0]], 0), a[1] if isinstance(a[1], Ref) else Ref([a[1]], 0)])
            if r.v != 'Some': return False
            o = r.f[0].v
        return {'lt': o == 'Less', 'le': o != 'Greater', 'gt': o == 'Greater', 'ge': o != 'Less'}[op]
    @R(r'^(std::cmp::)?Ordering::(then|then_with|is_eq|is_ne|is_lt|is_le|is_gt|is_ge|reverse)')
    def _(e, c, a):
        o = deref(a[0]).v; op = re.search(r'Ordering::(\w+)', c).group(1)
        if op == 'then': return a[0] if o != 'Equal' else a[1]
        if op == 'then_with': return a[0] if o != 'Equal' else e.closure_call(a[1], [])
        if op == 'reverse': return ordering({'Less': 'Greater', 'Greater': 'Less', 'Equal': 'Equal'}[o])
        return {'is_eq': o == 'Equal', 'is_ne': o != 'Equal', 'is_lt': o == 'Less', 'is_le': o != 'Greater', 'is_gt': o == 'Greater', 'is_ge': o != 'Less'}[op]

    # ---- str family (byte lists; lengths concrete, bytes possibly symbolic)
    def pat_bytes(p):
        p = deref(p)
        if isinstance(p, int) or z3.is_bv(p): return [p]
        return list(sbytes(p))
    def match_at(s, i, pat):
        if i < 0 or i + len(pat) > len(s): return False
        cs = []
        for x, y in zip(s[i:i + len(pat)], pat):
            if isinstance(x, int) and isinstance(y, int):
                if x != y: return False
            else: cs.append(x == y)
        return True if not cs else (cs[0] if len(cs) == 1 else z3.And(*cs))
    @R(STR + r'strip_prefix::<(&str|char|&String|&&str)>$')
    def _(e, c, a):
        s, p = sbytes(a[0]), pat_bytes(a[1])
        return SOME(sref(s[len(p):])) if e.branch(match_at(s, 0, p)) else NONE()
    @R(STR + r'strip_suffix::<(&str|char|&String|&&str)>$')
    def _(e, c, a):
        s, p = sbytes(a[0]), pat_bytes(a[1])
        return SOME(sref(s[:len(s) - len(p)])) if e.branch(match_at(s, len(s) - len(p), p)) else NONE()
    @R(STR + r'(starts_with|ends_with)::<(&str|char|&String|&&str)>$')
    def _(e, c, a):
        s, p = sbytes(a[0]), pat_bytes(a[1])
        return e.branch(match_at(s, 0 if 'starts_with' in c else len(s) - len(p), p))
    @R(STR + r'contains::<(&str|char|&String|&&str)>$')
    def _(e, c, a):
        s, p = sbytes(a[0]), pat_bytes(a[1])
        for i in range(0, len(s) - len(p) + 1):
            if e.branch(match_at(s, i, p)): return True
        return False
    @R(STR + r'(find|rfind)::<(&str|char|&String|&&str)>$')
    def _(e, c, a):
        s, p = sbytes(a[0]), pat_bytes(a[1])
        rng_ = range(0, len(s) - len(p) + 1)
        for i in (reversed(rng_) if '::rfind' in c else rng_):
            if e.branch(match_at(s, i, p)): return SOME(i)
        return NONE()
    @R(STR + r'(split_once|rsplit_once)::<(&str|char|&String|&&str)>$')
    def _(e, c, a):
        s, p = sbytes(a[0]), pat_bytes(a[1])
        rng_ = range(0, len(s) - len(p) + 1)
        for i in (reversed(rng_) if 'rsplit_once' in c else rng_):
            if e.branch(match_at(s, i, p)): return SOME(Agg([sref(s[:i]), sref(s[i + len(p):])], 'tup'))
        return NONE()
    @R(STR + r'(split|rsplit|split_terminator)::<(&str|char|&String|&&str)>$')
    def _(e, c, a):
        s, p = sbytes(a[0]), pat_bytes(a[1]); out = []; start = 0; i = 0
        while i + len(p) <= len(s):
            if e.branch(match_at(s, i, p)): out.append(sref(s[start:i])); i += len(p); start = i
            else: i += 1
        out.append(sref(s[start:]))
        if 'split_terminator' in c and not s[start:]: out.pop()
        if '::rsplit::' in c: out.reverse()
        return It('list', l=out, pos=0)
    @R(STR + r'(to_owned|to_string)$|^<str as ToString>::to_string$|^<String as From<&str>>::from$|^<str as ToOwned>::to_owned$|^<&str as Into<String>>::into$|^<String as Clone>::clone$')
    def _(e, c, a): return Vec(list(sbytes(a[0])), 'String')
    @R(STR + r'bytes$')
    def _(e, c, a): return It('list', l=list(sbytes(a[0])), pos=0)
    @R(r'^\[&str\]::concat$|^(core|std|alloc)::slice::<impl \[&str\]>::concat::<str>$|^<\[&str\] as Concat<str>>::concat')
    def _(e, c, a):
        out = []
        v = deref(a[0]); items = v.items() if isinstance(v, SliceRef) else (v.f if isinstance(v, Agg) else v.l)
        for x in items: out.extend(sbytes(x))
        return Vec(out, 'String')
    @R(r'^(std::string::)?String::push_str$')
    def _(e, c, a): deref(a[0]).l.extend(sbytes(a[1])); return UNIT
    @R(r'^(std::string::)?String::push$')
    def _(e, c, a): deref(a[0]).l.append(a[1]); return UNIT
    @R(r'^(std::string::)?String::(new|with_capacity)$')
    def _(e, c, a): return Vec([], 'String')

    @R(r'Option::<.*>::map_or::<')
    def _(e, c, a): return a[1] if a[0].v == 'None' else e.closure_call(a[2], [a[0].f[0]])
    @R(r'Option::<.*>::map_or_else::<')
    def _(e, c, a): return e.closure_call(a[1], []) if a[0].v == 'None' else e.closure_call(a[2], [a[0].f[0]])

class HMValRef(Ref):
    """reference to the value slot of entry i of a HashMapM"""
    __slots__ = ('hm', 'i')
    def __init__(self, hm, i): self.hm, self.i = hm, i; self.c = self; self.k = 0
    def __getitem__(self, k): return self.hm.items[self.i][1]
    def __setitem__(self, k, v): self.hm.items[self.i] = (self.hm.items[self.i][0], v)
    def get(self): return self.hm.items[self.i][1]
    def set(self, v): self.hm.items[self.i] = (self.hm.items[self.i][0], v)
class HMKeyRef(Ref):
    __slots__ = ('hm', 'i')
    def __init__(self, hm, i): self.hm, self.i = hm, i; self.c = self; self.k = 0
    def __getitem__(self, k): return self.hm.items[self.i][0]
    def __setitem__(self, k, v): raise EngineError('write through a HashMap key reference')
    def get(self): return self.hm.items[self.i][0]

class CharM:
    """abstract character: identity + UTF-8 length; its display width is decided by the harness stub"""
    __slots__ = ('id', 'n')
    def __init__(self, id, n): self.id, self.n = id, n
    def __repr__(self): return f"'ch{self.id}/{self.n}'"
    def __eq__(self, o): return isinstance(o, CharM) and o.id == self.id
    def __hash__(self): return hash(('CharM', self.id))

//! Kani proof harnesses over jj's real code + real std (slice/integer kernels only: anything that touches heap containers
//! exhausts CBMC's memory, see DESIGN.md section 1).
#![allow(unused)]
#[cfg(kani)]
mod harnesses {
    use std::path::Path;

    use jj_lib::repo_path::RepoPath;
    use jj_lib::repo_path::RepoPathBuf;
    use jj_lib::repo_path::RepoPathComponent;

    fn any_ascii_str<const N: usize>(buf: &mut [u8; N]) -> Option<&str> {
        let len: usize = kani::any();
        kani::assume(len <= N);
        for i in 0..N {
            buf[i] = kani::any();
            kani::assume(buf[i] < 0x80);
        }
        std::str::from_utf8(&buf[..len]).ok()
    }

    /// C32: a component is accepted as a file-system name only if it is a single normal path component, and then verbatim.
    #[kani::proof]
    #[kani::unwind(6)]
    fn c32_to_fs_name_3() {
        let mut buf = [0u8; 3];
        let Some(s) = any_ascii_str(&mut buf) else { return };
        let Ok(c) = RepoPathComponent::new(s) else { return };
        match c.to_fs_name() {
            Ok(name) => {
                assert!(name == s);
                assert!(s != "." && s != ".." && !s.contains('/') && !s.is_empty());
                kani::cover!(true, "accepts some");
            }
            Err(_) => {
                kani::cover!(true, "rejects some");
            }
        }
    }

    /// C20: common_hex_len is the number of leading hex digits two byte strings share.
    #[kani::proof]
    #[kani::unwind(8)]
    fn c20_common_hex_len_3() {
        let a: [u8; 3] = kani::any();
        let b: [u8; 3] = kani::any();
        let n = jj_core::hex_util::common_hex_len(&a, &b);
        assert!(n <= 6);
        for i in 0..6usize {
            let na = if i % 2 == 0 { a[i / 2] >> 4 } else { a[i / 2] & 0xf };
            let nb = if i % 2 == 0 { b[i / 2] >> 4 } else { b[i / 2] & 0xf };
            if i < n {
                assert!(na == nb);
            }
            if i == n {
                assert!(na != nb);
            }
        }
        kani::cover!(n == 3, "odd shared length reachable");
    }
}

//! Native replay runner: executes jj's real public API on concrete inputs produced by the solver and
//! evaluates the property natively.  Protocol: `jjreplay <prop>`; one JSON case per stdin line; one JSON result
//! per stdout line: {"out": .., "holds": bool, "why": ".."} or {"panic": ".."}.
use std::io::BufRead as _;
use std::io::Write as _;
use std::panic::AssertUnwindSafe;
use std::panic::catch_unwind;

use serde_json::Value;
use serde_json::json;

mod conflict_props;
mod diff_props;
mod fileset_props;
mod git_props;
mod matcher_props;
mod idx_props;
mod merge_props;
mod path_props;
mod refs_props;
mod table_props;
mod wc_props;

fn main() {
    let prop = std::env::args().nth(1).expect("property");
    std::panic::set_hook(Box::new(|_| {}));
    let stdin = std::io::stdin();
    let stdout = std::io::stdout();
    for line in stdin.lock().lines() {
        let line = line.unwrap();
        if line.trim().is_empty() {
            continue;
        }
        let case: Value = serde_json::from_str(&line).expect("json case");
        let res = catch_unwind(AssertUnwindSafe(|| match prop.as_str() {
            "c01" => merge_props::c01(&case),
            "c02" => merge_props::c02(&case),
            "c03" => diff_props::c03(&case),
            "c04" => diff_props::c04(&case),
            "c05" => conflict_props::c05(&case),
            "c12" => refs_props::c12(&case),
            "c20" => idx_props::c20(&case),
            "c21" => table_props::c21(&case),
            "c26" => wc_props::c26(&case),
            "c30" => matcher_props::c30(&case),
            "c31" => fileset_props::c31(&case),
            "c32" => path_props::c32(&case),
            "c33" => git_props::c33(&case),
            _ => json!({"error": format!("unknown property {prop}")}),
        }));
        let out = match res {
            Ok(v) => v,
            Err(p) => {
                let msg = p
                    .downcast_ref::<String>()
                    .cloned()
                    .or_else(|| p.downcast_ref::<&str>().map(|s| s.to_string()))
                    .unwrap_or_else(|| "panic".to_string());
                json!({"panic": msg})
            }
        };
        let mut o = stdout.lock();
        writeln!(o, "{out}").unwrap();
    }
}

pub fn ints(v: &Value) -> Vec<i64> {
    v.as_array().unwrap().iter().map(|x| x.as_i64().unwrap()).collect()
}

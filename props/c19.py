"""C19  Revset evaluation matches set semantics  (partial: the default engine on resolved expressions, lib/src/default_index/revset_engine.rs + rev_walk.rs)

Claimed part: EvaluationContext::evaluate (the default index engine) applied to every structural node type of ResolvedExpression
whose operands are explicit commit sets yields, through InternalRevset::positions(), exactly the set its set-theoretic definition
denotes over the commit graph, in strictly descending index order (newest first, no duplicates).  Because every node is evaluated
from the position streams / predicates of its operands only, this one-node step composes to arbitrary expression trees
(inductive step; the operands here are eager sets, and lazy walks for the set operators).
Real code from MIR: EvaluationContext::{evaluate, revset_for_commit_ids}, RevWalkBuilder::*, RevWalkImpl / RevWalkGenerationRangeImpl /
RevWalkDescendantsImpl ::next, RevWalkQueue::*, RevWalkItemGenerationRange::*, flush_queue_until, filter_slice_by_range,
RevWalkDescendantsIndex::build, Union/Intersection/Difference RevWalk and Revset adapters, EagerRevset, RevWalkRevset, FilterRevset,
predicate_fn_from_rev_walk, CompositeCommitIndex::{heads_pos, common_ancestors_pos, heads_from_range_and_filter, entry_by_pos, commit_id_to_pos}.
Symbolic: the whole parent relation of the commit graph (see props/graphstub.py); the oracle is a formula over all its booleans.
"""
import itertools, re, z3
from mirsym.harness import *
from mirsym.engine import NONE, SOME, OK, It, UNIT, Panic
from props.graphstub import SymGraph, GP, CID, plist, subset

ID = 'C19'
TECHNIQUE = 'symbolic execution of rustc MIR (path-forking) + z3 SMT queries per path; commit graph fully symbolic behind abstract index segments; one-node inductive step over ResolvedExpression; violations reported on the solver verdict (private engine; no native replay)'
CRATES = ['jj-lib']
NATIVE = None
NATIVE_CONFIRM = False
BOUNDS = {
    'quick': 'every commit DAG on <=3 positions (any parent sets incl. octopus merges), operand sets = every subset of the positions (for n=3, Range/DagRange/set operators/FilterWithin use the reduced option set: generation ranges 1..2, 0..2, 2..4, 1.., unbounded; all parents; lazy x lazy operands); node types: Commits, Ancestors and Range '
             '(generation ranges a..b with a<=2, b-a<=2 or unbounded; all parents or first parent only), DagRange (full, children 1..2, ranged), Heads, HeadsRange, Roots, Forks, '
             'ForkPoint, MergePoint, Reachable, Bisect, HasSize, Coalesce, Union/Intersection/Difference over lazy ancestor walks, FilterWithin with Set/NotIn/Union/Intersection predicates',
    'thorough': 'the same on <=4 positions (generation ranges 1..2, 0..2, 2..4, 1.. and unbounded for n=4)',
}
ASSUMPTIONS = [
    'the commit index is the abstract segment stack of props/graphstub.py (C18): parents smaller than the commit, generation numbers consistent; commit ids are one byte = the position',
    'parsing, lowering, optimize() and resolve_visibility/symbol resolution (lib/src/revset.rs) are NOT covered: the claim starts from ResolvedExpression; the optimized-vs-unoptimized '
    'agreement follows only insofar as both lower to node types covered here',
    'Latest (needs commit timestamps from the store), filter predicates on commit contents, Divergent and AtOperation are not covered; BinaryHeap/HashMap/HashSet are native models',
]
BUDGET = {'quick': 900, 'thorough': 6000}
F = 'lib/src/default_index/revset_engine.rs'
U32MAX = (1 << 32) - 1

NODES = ['commits', 'ancestors', 'range', 'dagrange', 'heads', 'headsrange', 'roots', 'forks', 'forkpoint', 'mergepoint', 'reachable', 'bisect', 'hassize', 'coalesce',
         'setops', 'filter']

def jobs(tier):
    out = []
    for n in ((2, 3) if tier == 'quick' else (2, 3, 4)):
        for node in NODES:
            heavy = node in ('ancestors', 'range', 'dagrange', 'setops', 'filter', 'reachable', 'mergepoint', 'headsrange')
            slim = n >= 4 or (tier == 'quick' and n == 3 and node in ('range', 'dagrange', 'filter', 'setops'))
            out.append(dict(name=f'{node}-n{n}' + ('-slim' if slim and n == 3 else ''), node=node, n=n, slim=slim, rung=0 if n <= 3 else n, weight=(8 if heavy else 4) ** n, split=('enumerate', 6 if n <= 3 else 8) if n >= 4 or (heavy and n >= 3) else None))
    return out

def run_job(ix, job, tier):
    n = job['n']; P = list(range(n)); node = job['node']
    G = SymGraph(P, [n // 2] if n >= 2 else [], 'asc'); par, reach = G.par, G.reach
    evaluate = ix.find_method(F, 'EvaluationContext', 'evaluate')
    cindex = Agg([Opaque('commits'), Opaque('changed_paths')], 'CompositeIndex')
    over = list(G.over) + [(re.compile(r'CompositeIndex::commits$'), lambda e, c, a: G.index),
                           (re.compile(r'<&?CompositeIndex as AsCompositeIndex>::as_composite$'), lambda e, c, a: a[0])]
    RE = 'ResolvedExpression'
    def commits(S): return Enum('Commits', [Vec([CID(p) for p in S], 'Vec')], RE)
    def box(x): return Ref([x], 0)
    def r64(a, b): return rng(a, b)
    FULLGEN = (0, (1 << 64) - 1); FULLPAR = (0, U32MAX)
    # ---- oracle pieces (formulas over the parent booleans)
    def edge(c, p, prange):
        """p is a parent of c whose index in the listed parent order lies in prange"""
        if prange == FULLPAR: return par[c, p]
        before = [q for q in G.parents_in_order(c) if q != p][: G.parents_in_order(c).index(p)]
        idx = z3.Sum([z3.If(par[c, q], 1, 0) for q in before]) if before else z3.IntVal(0)
        return z3.And(par[c, p], idx >= prange[0], idx < prange[1])
    def paths(prange):
        """pk[k][d, a]: a path of exactly k (filtered) parent steps leads from d to a"""
        pk = [{(d, a): z3.BoolVal(d == a) for d in P for a in P}]
        for k in range(1, n):
            pk.append({(d, a): zor([z3.And(edge(d, p, prange), pk[k - 1][p, a]) for p in P if a <= p < d]) for d in P for a in P})
        return pk
    def anc(S, x, prange=FULLPAR):
        if prange == FULLPAR: return zor([reach[s, x] for s in S])
        pk = paths(prange); return zor([pk[k][s, x] for s in S for k in range(n)])
    def anc_gen(S, x, gr, prange=FULLPAR):
        pk = paths(prange); return zor([pk[k][s, x] for s in S for k in range(n) if gr[0] <= k < gr[1]])
    def heads_of(inS, x): return z3.And(inS[x], z3.Not(zor([z3.And(inS[y], reach[y, x]) for y in P if y > x])))
    def roots_of(inS, x): return z3.And(inS[x], z3.Not(zor([z3.And(inS[y], reach[x, y]) for y in P if y < x])))
    SLIM_GEN = [(1, 2), (0, 2), (2, 4), (1, (1 << 64) - 1)]
    def pick_gen(e):
        if job.get('slim'): return SLIM_GEN[e.choose(len(SLIM_GEN))]
        a = e.choose(3); w = e.choose(4)
        return (a, a + w) if w < 3 else (a, (1 << 64) - 1)
    def pick_gen_or_full(e): return FULLGEN if e.choose(2) == 0 else pick_gen(e)
    def pick_par(e):
        if job.get('slim') and node != 'ancestors': return FULLPAR
        return FULLPAR if e.choose(2) == 0 else (0, 1)
    T = z3.BoolVal(True)

    def build(e):
        """returns (expression value, oracle: dict x -> formula  |  ('list', [...]) | ('err',), description)"""
        A = subset(e, P)
        if node == 'commits':
            order = list(A) if e.choose(2) == 0 else list(reversed(A)) + list(A[:1])          # any order, duplicates allowed
            return commits(order), {x: z3.BoolVal(x in A) for x in P}, f'Commits({order})'
        if node == 'ancestors':
            gr = pick_gen_or_full(e); pr = pick_par(e)
            ex = Enum('Ancestors', [box(commits(A)), r64(*gr), rng(*pr)], RE)
            return ex, {x: (anc(A, x, pr) if gr == FULLGEN else anc_gen(A, x, gr, pr)) for x in P}, f'Ancestors({A}, gen={gr}, parents={pr})'
        if node == 'range':
            B = subset(e, P); gr = pick_gen_or_full(e); pr = pick_par(e)
            ex = Enum('Range', [box(commits(B)), box(commits(A)), r64(*gr), rng(*pr)], RE)
            return ex, {x: z3.And((anc(A, x, pr) if gr == FULLGEN else anc_gen(A, x, gr, pr)), z3.Not(anc(B, x))) for x in P}, f'Range(roots={B}, heads={A}, gen={gr}, parents={pr})'
        if node == 'dagrange':
            B = subset(e, P); k = e.choose(3); gr = FULLGEN if k == 0 else (1, 2) if k == 1 else pick_gen(e)
            ex = Enum('DagRange', [box(commits(B)), box(commits(A)), r64(*gr)], RE)
            pk = paths(FULLPAR)
            return ex, {x: z3.And(anc(A, x), zor([pk[j][x, r] for r in B for j in range(n) if gr[0] <= j < gr[1]])) for x in P}, f'DagRange(roots={B}, heads={A}, gen={gr})'
        if node == 'heads':
            inS = {x: z3.BoolVal(x in A) for x in P}
            return Enum('Heads', [box(commits(A))], RE), {x: heads_of(inS, x) for x in P}, f'Heads({A})'
        if node == 'roots':
            inS = {x: z3.BoolVal(x in A) for x in P}
            return Enum('Roots', [box(commits(A))], RE), {x: roots_of(inS, x) for x in P}, f'Roots({A})'
        if node == 'headsrange':
            B = subset(e, P); pr = pick_par(e)
            ex = Enum('HeadsRange', [box(commits(B)), box(commits(A)), rng(*pr), NONE()], RE)
            inS = {x: z3.And(anc(A, x, pr), z3.Not(anc(B, x))) for x in P}
            return ex, {x: heads_of(inS, x) for x in P}, f'HeadsRange(roots={B}, heads={A}, parents={pr})'
        if node == 'forks':
            inA = {x: anc(A, x) for x in P}
            return Enum('Forks', [box(commits(A))], RE), {x: z3.And(inA[x], z3.Sum([z3.If(z3.And(inA[c], par[c, x]), 1, 0) for c in P if c > x] + [z3.IntVal(0)]) >= 2) for x in P}, f'Forks({A})'
        if node == 'forkpoint':
            inS = {x: (zand([reach[a, x] for a in A]) if A else z3.BoolVal(False)) for x in P}
            return Enum('ForkPoint', [box(commits(A))], RE), {x: heads_of(inS, x) for x in P}, f'ForkPoint({A})'
        if node == 'mergepoint':
            B = subset(e, P)
            inS = {x: (z3.And(anc(A, x), zand([reach[x, r] for r in B])) if B else z3.BoolVal(False)) for x in P}
            return Enum('MergePoint', [box(commits(B)), box(commits(A))], RE), {x: roots_of(inS, x) for x in P}, f'MergePoint(roots={B}, visible_heads={A})'
        if node == 'reachable':
            B = subset(e, P)           # domain
            adj = {(x, y): (par[max(x, y), min(x, y)] if x != y else T) for x in B for y in B}
            conn = {(x, y): z3.BoolVal(x == y) for x in B for y in B}
            for _ in range(max(0, len(B) - 1)):
                conn = {(x, y): zor([conn[x, y]] + [z3.And(adj[x, z], conn[z, y]) for z in B if z != x]) for x in B for y in B}
            ex = Enum('Reachable', [box(commits(A)), box(commits(B))], RE)
            return ex, {x: (zor([conn[x, s] for s in A if s in B]) if x in B else z3.BoolVal(False)) for x in P}, f'Reachable(sources={A}, domain={B})'
        if node == 'bisect':
            d = sorted(A, reverse=True)
            return Enum('Bisect', [box(commits(A))], RE), ('list', [d[len(d) // 2]] if d else []), f'Bisect({A})'
        if node == 'hassize':
            cnt = e.choose(n + 2)
            return Enum('HasSize', [box(commits(A)), cnt], RE), ({x: z3.BoolVal(x in A) for x in P} if len(A) == cnt else ('err',)), f'HasSize({A}, {cnt})'
        if node == 'coalesce':
            B = subset(e, P)
            # first operand possibly a lazy walk that is empty / non-empty depending on the graph: ancestors at generation 1..2 (parents)
            lazy = e.choose(2) == 1
            first = Enum('Ancestors', [box(commits(A)), r64(1, 2), rng(*FULLPAR)], RE) if lazy else commits(A)
            inA = {x: (anc_gen(A, x, (1, 2)) if lazy else z3.BoolVal(x in A)) for x in P}
            nonempty = zor([inA[x] for x in P])
            return Enum('Coalesce', [box(first), box(commits(B))], RE), {x: z3.If(nonempty, inA[x], z3.BoolVal(x in B)) for x in P}, f'Coalesce({"parents of " if lazy else ""}{A}, {B})'
        if node == 'setops':
            B = subset(e, P); op = ['Union', 'Intersection', 'Difference'][e.choose(3)]
            k = 2 if job.get('slim') else e.choose(3)        # operand shapes: lazy walk x eager set, eager x lazy, lazy x lazy
            la = Enum('Ancestors', [box(commits(A)), r64(*FULLGEN), rng(*FULLPAR)], RE); lb = Enum('Ancestors', [box(commits(B)), r64(1, 3), rng(*FULLPAR)], RE)
            x1, in1 = (la, {x: anc(A, x) for x in P}) if k != 1 else (commits(A), {x: z3.BoolVal(x in A) for x in P})
            x2, in2 = (lb, {x: anc_gen(B, x, (1, 3)) for x in P}) if k != 0 else (commits(B), {x: z3.BoolVal(x in B) for x in P})
            f = {'Union': z3.Or, 'Intersection': z3.And, 'Difference': lambda p, q: z3.And(p, z3.Not(q))}[op]
            return Enum(op, [box(x1), box(x2)], RE), {x: f(in1[x], in2[x]) for x in P}, f'{op}(shape {k}; {A}, {B})'
        if node == 'filter':
            B = subset(e, P); k = e.choose(6)
            PE = 'ResolvedPredicateExpression'
            la = Enum('Ancestors', [box(commits(A)), r64(*FULLGEN), rng(*FULLPAR)], RE); inA = {x: anc(A, x) for x in P}
            lb = Enum('Ancestors', [box(commits(B)), r64(1, 3), rng(*FULLPAR)], RE); inB = {x: anc_gen(B, x, (1, 3)) for x in P}
            hb = Enum('Heads', [box(commits(B))], RE); inH = {x: heads_of({y: z3.BoolVal(y in B) for y in P}, x) for x in P}
            allp = commits(P)
            if k == 0: pred, inP, cand, inC = Enum('Set', [box(la)], PE), inA, allp, {x: T for x in P}
            elif k == 1: pred, inP, cand, inC = Enum('NotIn', [box(Enum('Set', [box(lb)], PE))], PE), {x: z3.Not(inB[x]) for x in P}, la, inA
            elif k == 2: pred, inP, cand, inC = Enum('Union', [box(Enum('Set', [box(la)], PE)), box(Enum('Set', [box(hb)], PE))], PE), {x: z3.Or(inA[x], inH[x]) for x in P}, allp, {x: T for x in P}
            elif k == 3: pred, inP, cand, inC = Enum('Intersection', [box(Enum('Set', [box(la)], PE)), box(Enum('Set', [box(lb)], PE))], PE), {x: z3.And(inA[x], inB[x]) for x in P}, allp, {x: T for x in P}
            elif k == 4:
                d = Enum('Difference', [box(la), box(lb)], RE)
                pred, inP, cand, inC = Enum('Set', [box(d)], PE), {x: z3.And(inA[x], z3.Not(inB[x])) for x in P}, allp, {x: T for x in P}
            else:
                u = Enum('Union', [box(lb), box(hb)], RE)
                pred, inP, cand, inC = Enum('Set', [box(u)], PE), {x: z3.Or(inB[x], inH[x]) for x in P}, la, inA
            return Enum('FilterWithin', [box(cand), pred], RE), {x: z3.And(inC[x], inP[x]) for x in P}, f'FilterWithin(shape {k}; {A}, {B})'
        raise EngineError('unknown node ' + node)

    def run(e):
        ex, oracle, desc = build(e)
        ctx = mk_struct(ix, F, 'EvaluationContext', store=Opaque('store'), index=Ref([cindex], 0))
        r = e.call_mir(evaluate, [Ref([ctx], 0), Ref([ex], 0)])
        if r.v == 'Err': return desc, oracle, ('err',)
        rs = r.f[0]
        walk = e.call('<dyn InternalRevset as InternalRevset>::positions', [rs])
        out = []
        for _ in range(4 * n + 4):
            nx = e.call('<dyn RevWalk<CompositeIndex> as RevWalk<CompositeIndex>>::next', [Ref([walk], 0) if not isinstance(walk, Ref) else walk, Ref([cindex], 0)])
            if nx.v == 'None': break
            it = nx.f[0]
            if it.v != 'Ok': return desc, oracle, ('err',)
            out.append(it.f[0].f[0])
        else: raise EngineError('walk does not terminate')
        return desc, oracle, ('list', out)
    def obligations(kind, out, pc, e):
        desc, oracle, res = out
        if oracle == ('err',) or res == ('err',):
            yield f'{node}: error exactly when the definition says so', (oracle == ('err',) and res == ('err',)); return
        lst = res[1]
        yield f'{node}: positions are strictly descending (newest first, no duplicates)', all(isinstance(x, int) for x in lst) and all(x > y for x, y in zip(lst, lst[1:]))
        if isinstance(oracle, tuple): yield f'{node}: result is the defined list', lst == oracle[1]; return
        for x in P:
            yield f'{node}: position {x} is yielded iff it is in the denoted set', (oracle[x] if x in lst else z3.Not(oracle[x]))
    def sample(kind, out, pc): return dict(job=job['name'], expression=out[0], result=str(out[2]), path_condition=[str(c)[:60] for c in pc[:8]])
    return explore_job(ix, job['name'], run, obligations, overrides=over, sample=sample, deadline=job.get('deadline'), split=job.get('split'))

def compare_native(case, native):
    return True, ''

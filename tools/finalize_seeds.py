#!/usr/bin/env python3
"""Merge my own confirmation results into seeded/<name>/meta.json (what I ran, what it showed, which check catches the change)."""
import json, os, re, glob
VERIF = os.path.dirname(os.path.dirname(os.path.abspath(__file__)))
CAUGHT = {
 'C01-resume-scan': ('./check C01 --tier quick', 'idempotence / no-side-and-base obligations sat at arity 7; reproduced natively'),
 'C02-smallvec-spill': ('./check C02 --tier quick', 'arity9-*-cancelling (arity 9 restricted to inputs with >= 4 equal add/remove pairs, added after the seed): counting-oracle obligations sat, reproduced natively. Before that job only the thorough tier (all patterns of arity 9) caught it; the quick tier stopped at arity 7'),
 'C03-histogram-hash-class': ('./check C03 --tier quick', 'determinism query between paths (and matching-equality under the comparator) sat for the line tokenizer jobs'),
 'C04-first-base-fastpath': ('./check C04 --tier quick', '5-way one-line merges: whole-content cancellation rule and hunk-wise rule sat; reproduced natively'),
 'C05-short-marker-runs': ('./check C05 --tier quick', 'run-of-6 look-alike shapes in Diff/DiffExperimental: "materialized conflict parses back" sat; reproduced natively'),
 'C12-add-index-offset': ('./check C12 --tier quick', '"a side disappears only if it is an ancestor of another side" sat at arities (3,1,1); reproduced natively'),
 'C26-future-mtime': ('./check C26 --tier quick', '"trusted clean only if ... strictly older than the state file" sat (solver verdict over the private async function)'),
 'C29-trailing-cr': ('./check C29 --tier quick', 'round-trip obligations sat in the PROBE_LIMIT:=4 (modified constant) jobs'),
 'C30-difference-prune': ('./check C30 --tier quick', 'combinator inductive step for DifferenceMatcher sat'),
 'C31-union-tuples-drop': ('./check C31 --tier quick', 'matches() vs set semantics sat for unions with three sub-matchers; reproduced natively'),
 'C33-tag-head': ('./check C33 --tier quick', 'import->export and exportability obligations sat (solver verdict; to_git_ref_name is private)'),
 'C14-rollback-new-head': ('./check C14 --tier quick', '(G) effect log: "only parents other than the new id are ever removed" and "a failing call ends the update" sat for 1..3 old ids (solver verdict over the async MIR; file system is a stub). Needed two model additions first (OpenOptions builder stub, bare std enum variant constants): exit 2 before, exit 1 after'),
 'C20-prefix-upper-bound': ('./check C20 --tier quick', 'resolve4-* jobs (4-byte ids, 5..8 digit prefixes): "resolution agrees with the set of ids that start with the prefix" sat at 7 digits; reproduced natively. The original jobs (ids sharing a concrete 3-byte prefix) MISSED it: the wrong carry only shows when neighbouring ids differ in the byte before the odd digit; jobs added'),
 'C21-squash-order': ('./check C21 --tier quick', 'seq-3_1_1-ordered: "lookup = last sequential write" and "save does not change the lookup" sat after the third save; the history (3,1,1) was not in the quick tier before the seed (added; it is the smallest history that squashes two ancestor segments)'),
 'C32-dot-component-fastpath': ('./check C32 --tier quick', 'from_relative_path-len3: "no empty, . or .. component" and "converts back to a file-system path" sat for "a/."; reproduced natively. Needed the std::path::MAIN_SEPARATOR constant in the engine first (exit 2 before)'),
 'C18-heads-min-generation': ('./check C18 --tier quick', 'heads-n5-cand3: "candidate kept iff no other candidate descends from it" sat for 3 candidates on 5 positions. The quick tier as it stood (heads_pos on <=4 positions) MISSED it - the smallest instance needs 5 positions (two roots) - while the thorough tier (heads-n5*) caught it; the 3-candidate job on 5 positions was added to the quick tier'),
 'C06-unsimplified-unchanged-check': ('./check C06 --tier quick', 'same-AAABC-Diff and the other redundant-pair shapes: "an unedited conflicted file is recorded as exactly the original conflict" sat (solver verdict; store is a stub)'),
 'C16-remote-target-fastpath': ('./check C16 --tier quick', 'bookmarks-*-rconflictd/rconflictn and tags-*: "View.remote_views reads back identical" sat. MISSED by the check as it stood: its only conflict shape was add/add with an absent base; the change/delete and delete/change shapes (one absent add) were added. Also needed Itertools::at_most_one and iteration over &Option (exit 2 before)'),
 'C19-roots-window': ('./check C19 --tier quick', 'roots-n3: "position is yielded iff it is in the denoted set" sat for Roots({0,2}) on a 3-position graph with two roots (solver verdict over the private engine)'),
 'C39-lookahead-min-position': ('./check C39 --tier quick', 'graph-n4-all / graph-n4-skip: exactness of the edge set and "indirect edge: reached only through commits outside the shown set" sat for shown {0,1,3} with hidden single-parent commit 2 (solver verdict)'),
 'C18-remove-dup-once': ('./check C18 --tier quick', 'common-n2-k3 (argument lists of up to 3 positions with repetition, added after the seed): "common_ancestors_pos result is strictly descending" sat for ([1,0,0],[0,0,0]) -> [0,0]. MISSED before: the argument lists had at most 2 entries, so no position was ever queued three times on both sides; the seed demo uses two octopus merges over 7 commits, the added job reaches the same queue state through repeated arguments'),
 'C19-reachable-break': ('./check C19 --tier quick', 'reachable-n3: "position is yielded iff it is in the denoted set" sat for Reachable(sources=[2], domain=[1,2]) with parents of 2 listed as [0,1] (solver verdict)'),
 'C44-exact-fit-zero-width': ('./check C44 --tier quick', '"text that already fits is returned unchanged" sat; reproduced natively'),
}
base = set(l.strip() for l in open('/tmp/baseline_names.txt')) if os.path.exists('/tmp/baseline_names.txt') else None
for d in sorted(glob.glob(os.path.join(VERIF, 'seeded', '*'))):
    name = os.path.basename(d); mp = os.path.join(d, 'meta.json'); lp = os.path.join(d, 'confirm.log')
    if not os.path.exists(mp): continue
    meta = json.load(open(mp))
    conf = {}
    if os.path.exists(lp):
        txt = open(lp).read()
        for k in ('demo_clean_exit', 'demo_patched_exit', 'suite_exit'):
            m = re.findall(k + r'=(\d+)', txt)
            if m: conf[k] = int(m[-1])
        m = re.findall(r'Summary \[.*?\] (.*)', txt)
        if m: conf['suite_summary'] = m[-1]
        fp = f'/tmp/confirm_{name}_fail.txt'
        if base is not None and os.path.exists(fp):
            names = set(re.sub(r'^\( *\d+/\d+\) ', '', l.strip()) for l in open(fp))
            conf['failing_tests_with_patch'] = len(names); conf['new_failures_vs_clean_baseline'] = sorted(names - base)
        conf['commands'] = ['git apply demo.diff && <demo_cmd>   (clean tree: must pass)', 'git apply patch.diff && <demo_cmd>   (must fail)',
                            'git apply patch.diff && cargo nextest run --workspace --offline --no-fail-fast --test-threads 8   (compared by test name with a clean-tree run: 170 baseline failures)']
    meta['confirmed_by_verifier'] = conf
    if name in CAUGHT: meta['caught_by'] = dict(command=CAUGHT[name][0], how=CAUGHT[name][1])
    meta['breaks_property'] = meta.get('property')
    json.dump(meta, open(mp, 'w'), indent=1)
    print(name, conf.get('demo_clean_exit'), conf.get('demo_patched_exit'), conf.get('suite_summary', '')[:60], len(conf.get('new_failures_vs_clean_baseline', []) or []))

"""CPython 3.11 keeps interpreter frames in 16 KiB "data stack" chunks obtained with mmap and returns a chunk to the OS as soon as
its first frame is popped.  A deeply recursive workload whose depth oscillates around a chunk boundary therefore performs an
mmap/munmap pair per call (measured here: >1000 per explored path, 25-40% of CPU time in the kernel, far worse with 16 worker
processes).  Work-around: run the workload inside one frame that is so large that CPython allocates a multi-megabyte chunk for it
(chunks are sized to the next power of two above the frame), leaving megabytes of room for the nested frames."""
import sys

_N = 1_100_000          # evaluation-stack slots declared for the holder frame: ~8.8 MB -> a 16 MB chunk with ~7 MB free

def _holder(f):
    return f()
_holder.__code__ = _holder.__code__.replace(co_stacksize=_N)

def run_in_big_frame(fn):
    """call fn() from inside a frame whose declared evaluation stack is huge (the slots are never touched)"""
    return _holder(fn)

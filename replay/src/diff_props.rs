use bstr::BString;
use jj_core::diff::ContentDiff;
use jj_core::diff::DiffHunkKind;
use jj_core::diff::diff;
use jj_lib::files;
use jj_lib::files::FileMergeHunkLevel;
use jj_lib::tree_merge::MergeOptions;
use jj_lib::merge::Merge;
use jj_lib::merge::SameChange;
use serde_json::Value;
use serde_json::json;

fn bytes(v: &Value) -> Vec<u8> {
    v.as_array().unwrap().iter().map(|b| b.as_u64().unwrap() as u8).collect()
}

fn kind(k: DiffHunkKind) -> &'static str {
    match k {
        DiffHunkKind::Matching => "Matching",
        DiffHunkKind::Different => "Different",
    }
}

pub fn c03(case: &Value) -> Value {
    let inputs: Vec<Vec<u8>> = case["inputs"].as_array().unwrap().iter().map(bytes).collect();
    let api = case["api"].as_str().unwrap();
    let mut why: Vec<String> = vec![];
    let out;
    // run twice: the hunks must be the same on every run (fresh RandomState each time)
    if api == "diff" {
        let h1 = diff(inputs.iter().map(|v| v.as_slice()));
        let h2 = diff(inputs.iter().map(|v| v.as_slice()));
        if h1 != h2 {
            why.push("two runs differ".into());
        }
        let mut cat = vec![vec![]; inputs.len()];
        let mut prev = None;
        for h in &h1 {
            if prev == Some(h.kind) {
                why.push("two hunks of the same kind in a row".into());
            }
            prev = Some(h.kind);
            if h.contents.iter().all(|c| c.is_empty()) {
                why.push("hunk empty on every side".into());
            }
            if h.kind == DiffHunkKind::Matching && !h.contents.iter().all(|c| *c == h.contents[0]) {
                why.push("matching hunk with unequal sides".into());
            }
            for (i, c) in h.contents.iter().enumerate() {
                cat[i].extend_from_slice(c);
            }
        }
        if cat != inputs {
            why.push("concatenation does not reproduce the inputs".into());
        }
        out = json!(h1.iter().map(|h| json!([kind(h.kind), h.contents.iter().map(|c| c.to_vec()).collect::<Vec<_>>()])).collect::<Vec<_>>());
    } else {
        let mk = || match api {
            "for_tokenizer" => {
                let tok = match case["tok"].as_str().unwrap() {
                    "find_line_ranges" => jj_core::diff::find_line_ranges,
                    "find_word_ranges" => jj_core::diff::find_word_ranges,
                    _ => jj_core::diff::find_nonword_ranges,
                };
                match case["cmp"].as_str().unwrap() {
                    "CompareBytesIgnoreWhitespaceAmount" => ContentDiff::for_tokenizer(inputs.iter().map(|v| v.as_slice()), tok, jj_core::diff::CompareBytesIgnoreWhitespaceAmount),
                    "CompareBytesIgnoreAllWhitespace" => ContentDiff::for_tokenizer(inputs.iter().map(|v| v.as_slice()), tok, jj_core::diff::CompareBytesIgnoreAllWhitespace),
                    _ => ContentDiff::for_tokenizer(inputs.iter().map(|v| v.as_slice()), tok, jj_core::diff::CompareBytesExactly),
                }
            }
            "by_line" => ContentDiff::by_line(inputs.iter().map(|v| v.as_slice())),
            "by_word" => ContentDiff::by_word(inputs.iter().map(|v| v.as_slice())),
            _ => ContentDiff::unrefined(inputs.iter().map(|v| v.as_slice())),
        };
        let r1: Vec<_> = mk().hunk_ranges().collect();
        let r2: Vec<_> = mk().hunk_ranges().collect();
        if r1 != r2 {
            why.push("two runs differ".into());
        }
        let mut pos = vec![0usize; inputs.len()];
        let mut prev = None;
        for h in &r1 {
            if prev == Some(h.kind) {
                why.push("two hunks of the same kind in a row".into());
            }
            prev = Some(h.kind);
            if h.ranges.iter().all(|r| r.is_empty()) {
                why.push("hunk empty on every side".into());
            }
            for (i, r) in h.ranges.iter().enumerate() {
                if r.start != pos[i] || r.end > inputs[i].len() {
                    why.push("ranges are not contiguous".into());
                }
                pos[i] = r.end;
            }
            let cmp_eq = |a: &[u8], b: &[u8]| -> bool {
                use jj_core::diff::CompareBytes as _;
                match case["cmp"].as_str().unwrap_or("CompareBytesExactly") {
                    "CompareBytesIgnoreWhitespaceAmount" => jj_core::diff::CompareBytesIgnoreWhitespaceAmount.eq(a, b),
                    "CompareBytesIgnoreAllWhitespace" => jj_core::diff::CompareBytesIgnoreAllWhitespace.eq(a, b),
                    _ => a == b,
                }
            };
            if h.kind == DiffHunkKind::Matching && !h.ranges.iter().enumerate().all(|(i, r)| cmp_eq(&inputs[i][r.clone()], &inputs[0][h.ranges[0].clone()])) {
                why.push("matching hunk with unequal sides".into());
            }
        }
        if pos != inputs.iter().map(|v| v.len()).collect::<Vec<_>>() {
            why.push("ranges do not cover the inputs".into());
        }
        out = json!(r1.iter().map(|h| json!([kind(h.kind), h.ranges.iter().map(|r| vec![r.start, r.end]).collect::<Vec<_>>()])).collect::<Vec<_>>());
    }
    json!({"out": out, "holds": why.is_empty(), "why": why})
}

pub fn c04(case: &Value) -> Value {
    let terms: Vec<Vec<u8>> = case["terms"].as_array().unwrap().iter().map(bytes).collect();
    let options = MergeOptions {
        hunk_level: if case["level"].as_str().unwrap() == "Word" { FileMergeHunkLevel::Word } else { FileMergeHunkLevel::Line },
        same_change: if case["same_change"].as_str().unwrap() == "Accept" { SameChange::Accept } else { SameChange::Keep },
    };
    let inputs = Merge::from_vec(terms.clone());
    let merged: Merge<BString> = files::merge(&inputs, &options);
    let out: Vec<Vec<u8>> = merged.iter().map(|b| b.to_vec()).collect();
    let tried = files::try_merge(&inputs, &options);
    let mut why: Vec<String> = vec![];
    if out.len() != 1 && out.len() != terms.len() {
        why.push("arity".into());
    }
    if tried.is_some() != (out.len() == 1) || tried.as_ref().is_some_and(|t| t.to_vec() != out[0]) {
        why.push("try_merge disagrees with merge".into());
    }
    // cancellation rule on whole contents
    let mut cnt: std::collections::BTreeMap<&Vec<u8>, i64> = Default::default();
    for (i, t) in terms.iter().enumerate() {
        *cnt.entry(t).or_insert(0) += if i % 2 == 0 { 1 } else { -1 };
    }
    cnt.retain(|_, c| *c != 0);
    let pos: Vec<_> = cnt.iter().filter(|(_, c)| **c > 0).collect();
    let neg: Vec<_> = cnt.iter().filter(|(_, c)| **c < 0).collect();
    let justified = if cnt.len() == 1 && *pos.first().map(|p| p.1).unwrap_or(&0) == 1 {
        Some((*pos[0].0).clone())
    } else if options.same_change == SameChange::Accept && pos.len() == 1 && neg.len() <= 1 {
        Some((*pos[0].0).clone())
    } else {
        None
    };
    if let Some(j) = justified {
        if out != vec![j] {
            why.push("terms cancel to one content but the merge is not resolved to it".into());
        }
    }
    // hunk-wise rule (line level): every hunk of the line diff over (removes.., adds..) is resolved by the cancellation rule or kept
    if options.hunk_level == FileMergeHunkLevel::Line {
        let n = terms.len();
        let num_diffs = n / 2;
        let order: Vec<usize> = (0..num_diffs).map(|d| 2 * d + 1).chain((0..n - num_diffs).map(|d| 2 * d)).collect();
        let diff_inputs: Vec<&[u8]> = order.iter().map(|t| terms[*t].as_slice()).collect();
        let d = ContentDiff::by_line(diff_inputs.iter().copied());
        let mut resolved_all = true;
        let mut per_hunk: Vec<(Option<Vec<u8>>, Vec<Vec<u8>>)> = vec![];
        for h in d.hunks() {
            let mut sl = vec![vec![]; n];
            for (dix, c) in h.contents.iter().enumerate() {
                sl[order[dix]] = c.to_vec();
            }
            let r = if h.kind == DiffHunkKind::Matching {
                Some(sl[order[0]].clone())
            } else {
                let mut cnt: std::collections::BTreeMap<&Vec<u8>, i64> = Default::default();
                for (i, t) in sl.iter().enumerate() {
                    *cnt.entry(t).or_insert(0) += if i % 2 == 0 { 1 } else { -1 };
                }
                cnt.retain(|_, c| *c != 0);
                let pos: Vec<_> = cnt.iter().filter(|(_, c)| **c > 0).collect();
                let neg: Vec<_> = cnt.iter().filter(|(_, c)| **c < 0).collect();
                if cnt.len() == 1 && *pos.first().map(|p| p.1).unwrap_or(&0) == 1 {
                    Some((*pos[0].0).clone())
                } else if options.same_change == SameChange::Accept && pos.len() == 1 && neg.len() <= 1 {
                    Some((*pos[0].0).clone())
                } else {
                    None
                }
            };
            resolved_all &= r.is_some();
            per_hunk.push((r, sl));
        }
        let expect: Vec<Vec<u8>> = if resolved_all {
            vec![per_hunk.iter().flat_map(|(r, _)| r.clone().unwrap()).collect()]
        } else {
            (0..n).map(|t| per_hunk.iter().flat_map(|(r, sl)| r.clone().unwrap_or_else(|| sl[t].clone())).collect()).collect()
        };
        if expect != out {
            why.push("result is not the hunk-wise cancellation rule applied to the line diff".into());
        }
    }
    json!({"out": out, "holds": why.is_empty(), "why": why})
}

"""C26  Edits after a command finished are always detected  (lib/src/local_working_copy.rs)

Real code from MIR: the decision prefix of the async FileSnapshotter::get_updated_tree_value (everything up to the `if clean`
branch), FileState::is_clean, derived PartialEq of FileType/ExecBit, derived PartialOrd of MillisSinceEpoch.
"Re-read" = the function reaches `self.current_tree.path_value(..)` (the stub ends the path there); "trusted clean" = it returns
Ok(None) without reading the file.
Clock stub: file-system timestamps are an arbitrary *monotone* function of real time.  jj records the file's state at t_f, saves
the state file at t_s >= t_f, the user edits at t_e >= t_s; so stamps m_f <= m_s <= m_e (all three may be equal: coarse clock).
"""
import re, z3
from mirsym.harness import *
from mirsym.engine import NONE, SOME, OK, StubFuture

ID = 'C26'
TECHNIQUE = 'symbolic execution of rustc MIR (path-forking) + z3 SMT queries per path; clock as an arbitrary monotone function; path witnesses validated natively on the public half, violations reported on the solver verdict (deciding async fn is private)'
CRATES = ['jj-lib']
NATIVE = 'c26'
NATIVE_CONFIRM = False      # the deciding function (get_updated_tree_value) is private and async: counterexamples cannot be re-run through the public API;
                            # the native runner validates the public half (FileState::is_clean) against the interpreter on path witnesses
BOUNDS = {
    'quick': 'unbounded: every 64-bit mtime/size value, every file type pair (Normal with either exec bit, Symlink, GitSubmodule), tracked and untracked; no loop, no size bound',
    'thorough': 'same as quick (the claim has no bound to deepen)',
}
ASSUMPTIONS = [
    'the file system stamps modification times by a monotone (non-decreasing) function of real time; granularity arbitrary (all three stamps may be equal)',
    'the own_mtime consulted by the next snapshot is the stamp of the state file written after every recorded file state (TreeState::read -> update_own_mtime stats the persisted file); the save/read ordering itself is file-system behaviour and not encoded',
    'the edit keeps size and file type (worst case for detection); Watchman (fsmonitor) path not covered',
]
BUDGET = {'quick': 900, 'thorough': 300}
F = 'lib/src/local_working_copy.rs'
FTYPES = ['Normal0', 'Normal1', 'Symlink', 'GitSubmodule']

def jobs(tier):
    out = [dict(name='untracked', what='untracked', rung=0)]
    for a in FTYPES:
        for b in FTYPES:
            out.append(dict(name=f'tracked-{a}-{b}', what='tracked', cur=a, new=b, rung=0))
    out.append(dict(name='is_clean-definition', what='is_clean', rung=0))
    return out

class Reread(Exception): pass

def ftype(k):
    if k.startswith('Normal'): return Enum('Normal', [Agg([k == 'Normal1'], 'ExecBit')], 'FileType')
    return Enum(k, [], 'FileType')
def fstate(ix, ft, mtime, size):
    return mk_struct(ix, F, 'FileState', file_type=ftype(ft), mtime=Agg([mtime], 'MillisSinceEpoch'), size=size, materialized_conflict_data=NONE())

def run_job(ix, job, tier):
    if job['what'] == 'is_clean': return job_is_clean(ix, job)
    fn = ix.find_method(F, 'FileSnapshotter', 'get_updated_tree_value')
    m_f, m_s, m_e = bv('m_f'), bv('m_s'), bv('m_e'); s_f, s_e = bv('size_f'), bv('size_e')
    def path_value(e, c, args): raise Reread()
    over = [(re.compile(r'MergedTree::path_value|merged_tree::MergedTree::path_value'), path_value)]
    tracked = job['what'] == 'tracked'
    def run(e):
        ts = mk_struct(ix, F, 'TreeState', own_mtime=Agg([m_s], 'MillisSinceEpoch'), symlink_support=True)
        snap = mk_struct(ix, F, 'FileSnapshotter', tree_state=Ref([ts], 0), current_tree=Ref([Opaque('current_tree')], 0))
        cur = SOME(Ref([fstate(ix, job['cur'], m_f, s_f)], 0)) if tracked else NONE()
        new = fstate(ix, job['new'] if tracked else 'Normal0', m_e, s_e)
        coro = e.call_mir(fn, [Ref([snap], 0), Ref([Str(list(b'a'))], 0), Ref([Opaque('disk_path')], 0), cur, Ref([new], 0)])
        try: r = e.poll(coro)
        except Reread: return 'reread'
        if r.v == 'Ok' and r.f[0].v == 'None': return 'trusted-clean'
        raise EngineError(f'unexpected result {r!r}')
    same_type = tracked and job['cur'] == job['new']
    def obligations(k, out, pc, e):
        if not tracked:
            yield 'an untracked file is always read', out == 'reread'
            return
        monotone = z3.And(m_f <= m_s, m_s <= m_e)          # signed comparison on i64 millis
        yield 'an edit made after the state was saved is never trusted clean (coarse monotone clock, same size and type)', z3.Implies(monotone, zbool(out == 'reread'))
        yield 'a file is trusted clean only if type, mtime and size are unchanged and its mtime is strictly older than the state file',             (zbool(out == 'reread') if not same_type else z3.Implies(zbool(out == 'trusted-clean'), z3.And(m_e == m_f, s_e == s_f, m_f < m_s)))
        yield 'an unchanged file strictly older than the state file is not re-read (the rule is not vacuous)',             z3.Implies(z3.And(zbool(same_type), m_e == m_f, s_e == s_f, m_f < m_s), zbool(out == 'trusted-clean'))
    def witness(m, k, out):
        sg = lambda v: v - (1 << 64) if v >= (1 << 63) else v
        inp = dict(cur=job.get('cur'), new=job.get('new', 'Normal0'), m_f=sg(mval(m, m_f)), m_e=sg(mval(m, m_e)), size_f=mval(m, s_f), size_e=mval(m, s_e), tracked=tracked)
        return dict(input=inp, expect=dict(is_clean=None) if not tracked else dict(out=out, m_s=sg(mval(m, m_s))))
    return explore_job(ix, job['name'], run, obligations, overrides=over, deadline=job.get('deadline'))

def job_is_clean(ix, job):
    """FileState::is_clean over all field values, all type pairs"""
    fn = ix.find_method(F, 'FileState', 'is_clean')
    m1, m2, s1, s2 = bv('m1'), bv('m2'), bv('s1'), bv('s2')
    def run(e):
        i = e.choose(len(FTYPES)); j = e.choose(len(FTYPES))
        r = e.call_mir(fn, [Ref([fstate(ix, FTYPES[i], m1, s1)], 0), Ref([fstate(ix, FTYPES[j], m2, s2)], 0)])
        return i, j, r
    def obligations(k, out, pc, e):
        i, j, r = out
        yield 'is_clean <=> same type, mtime and size', zbool(r) == z3.And(zbool(i == j), m1 == m2, s1 == s2)
    def witness(m, k, out):
        i, j, r = out; sg = lambda v: v - (1 << 64) if v >= (1 << 63) else v
        return dict(input=dict(cur=FTYPES[j], new=FTYPES[i], m_f=sg(mval(m, m2)), m_e=sg(mval(m, m1)), size_f=mval(m, s2), size_e=mval(m, s1), tracked=True), expect=dict(is_clean=bool(mval(m, r))))
    return explore_job(ix, job['name'], run, obligations, witness=witness, deadline=job.get('deadline'))

def compare_native(case, native):
    if 'panic' in native: return False, f'native panic {native["panic"]}'
    if native.get('out') is None: return True, ''                 # Normal files cannot be constructed natively (ExecBit is private)
    return native['out'] == case['expect']['is_clean'], f'native is_clean={native["out"]} vs symbolic {case["expect"]}'

use jj_lib::matchers::FilesMatcher;
use jj_lib::matchers::Matcher;
use jj_lib::matchers::PrefixMatcher;
use jj_lib::matchers::Visit;
use jj_lib::matchers::VisitDirs;
use jj_lib::matchers::VisitFiles;
use jj_lib::repo_path::RepoPathBuf;
use serde_json::Value;
use serde_json::json;

fn path(v: &Value) -> RepoPathBuf {
    let comps: Vec<String> = v
        .as_array()
        .unwrap()
        .iter()
        .map(|c| String::from_utf8(c.as_array().unwrap().iter().map(|b| b.as_u64().unwrap() as u8).collect()).unwrap())
        .collect();
    RepoPathBuf::from_internal_string(comps.join("/")).unwrap()
}

fn set_json<'a>(it: impl Iterator<Item = &'a jj_lib::repo_path::RepoPathComponentBuf>) -> Value {
    let mut v: Vec<Vec<u8>> = it.map(|c| c.as_internal_str().as_bytes().to_vec()).collect();
    v.sort();
    json!(v)
}

/// leaves: FilesMatcher / PrefixMatcher built by the real constructors; soundness of visit(dir) for one probe path below dir
pub fn c30(case: &Value) -> Value {
    let paths: Vec<RepoPathBuf> = case["paths"].as_array().unwrap().iter().map(path).collect();
    let dir = path(&case["dir"]);
    let probe = path(&case["probe"]);
    let m: Box<dyn Matcher> = match case["kind"].as_str().unwrap() {
        "Files" => Box::new(FilesMatcher::new(&paths)),
        _ => Box::new(PrefixMatcher::new(&paths)),
    };
    let visit = m.visit(&dir);
    let matches = m.matches(&probe);
    let rest = probe.strip_prefix(&dir).expect("probe below dir");
    let mut comps = rest.components();
    let c = comps.next().expect("probe strictly below dir").to_owned();
    let direct = comps.next().is_none();
    let (vj, sound) = match &visit {
        Visit::Nothing => (json!("Nothing"), !matches),
        Visit::AllRecursively => (json!("AllRecursively"), matches),
        Visit::Specific { dirs, files } => {
            let dj = match dirs {
                VisitDirs::All => json!("All"),
                VisitDirs::Set(s) => set_json(s.iter()),
            };
            let fj = match files {
                VisitFiles::All => json!("All"),
                VisitFiles::Set(s) => set_json(s.iter()),
            };
            let listed = if direct {
                match files {
                    VisitFiles::All => true,
                    VisitFiles::Set(s) => s.contains(&c),
                }
            } else {
                match dirs {
                    VisitDirs::All => true,
                    VisitDirs::Set(s) => s.contains(&c),
                }
            };
            (json!({"dirs": dj, "files": fj}), !matches || listed)
        }
    };
    let expected_match = match case["kind"].as_str().unwrap() {
        "Files" => paths.iter().any(|p| *p == probe),
        _ => paths.iter().any(|p| probe.starts_with(p)),
    };
    let mut why = vec![];
    if !sound {
        why.push("visit(dir) is unsound for the probe path");
    }
    if matches != expected_match {
        why.push("matches() differs from the definition");
    }
    json!({"out": {"visit": vj, "matches": matches}, "holds": why.is_empty(), "why": why})
}

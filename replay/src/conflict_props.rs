use bstr::BString;
use jj_lib::conflict_labels::ConflictLabels;
use jj_lib::conflicts::ConflictMarkerStyle;
use jj_lib::conflicts::ConflictMaterializeOptions;
use jj_lib::conflicts::choose_materialized_conflict_marker_len;
use jj_lib::conflicts::materialize_merge_result_to_bytes;
use jj_lib::conflicts::parse_conflict;
use jj_lib::files;
use jj_lib::files::FileMergeHunkLevel;
use jj_lib::files::MergeResult;
use jj_lib::merge::Merge;
use jj_lib::merge::SameChange;
use jj_lib::tree_merge::MergeOptions;
use serde_json::Value;
use serde_json::json;

pub fn c05(case: &Value) -> Value {
    let terms: Vec<BString> = case["terms"]
        .as_array()
        .unwrap()
        .iter()
        .map(|t| BString::from(t.as_array().unwrap().iter().map(|b| b.as_u64().unwrap() as u8).collect::<Vec<u8>>()))
        .collect();
    let n = terms.len();
    let merge = Merge::from_vec(terms);
    let style = match case["style"].as_str().unwrap() {
        "Diff" => ConflictMarkerStyle::Diff,
        "DiffExperimental" => ConflictMarkerStyle::DiffExperimental,
        "Snapshot" => ConflictMarkerStyle::Snapshot,
        _ => ConflictMarkerStyle::Git,
    };
    let labels = if case["labels"].as_bool().unwrap() {
        ConflictLabels::from_vec((0..n).map(|i| format!("L{i}")).collect())
    } else {
        ConflictLabels::unlabeled()
    };
    let merge_options = MergeOptions { hunk_level: FileMergeHunkLevel::Line, same_change: SameChange::Accept };
    let options = ConflictMaterializeOptions { marker_style: style, marker_len: None, merge: merge_options.clone() };
    let out = materialize_merge_result_to_bytes(&merge, &labels, &options);
    let mut why: Vec<String> = vec![];
    match files::merge_hunks(&merge, &merge_options) {
        MergeResult::Resolved(content) => {
            if content != out {
                why.push("resolved merge does not materialize to its content".into());
            }
        }
        MergeResult::Conflict(hunks) => {
            let marker_len = choose_materialized_conflict_marker_len(&merge);
            match parse_conflict(&out, merge.num_sides(), marker_len) {
                None => why.push("materialized conflict does not parse back".into()),
                Some(parsed) => {
                    if parsed != hunks {
                        why.push(format!("parsed hunks differ from the merged hunks: {parsed:?} vs {hunks:?}"));
                    }
                }
            }
        }
    }
    json!({"out": out.to_vec(), "holds": why.is_empty(), "why": why})
}

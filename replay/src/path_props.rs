use std::path::Path;

use jj_lib::repo_path::RepoPath;
use jj_lib::repo_path::RepoPathBuf;
use serde_json::Value;
use serde_json::json;

fn bytes(v: &Value) -> Vec<u8> {
    v.as_array().unwrap().iter().map(|b| b.as_u64().unwrap() as u8).collect()
}

fn bad_components(s: &str) -> bool {
    !s.is_empty() && s.split('/').any(|c| c.is_empty() || c == "." || c == "..")
}

pub fn c32(case: &Value) -> Value {
    let p = String::from_utf8(bytes(&case["path"])).unwrap();
    let mut why: Vec<String> = vec![];
    let out = if case["op"].as_str().unwrap() == "from" {
        match RepoPathBuf::from_relative_path(Path::new(&p)) {
            Err(_) => Value::Null,
            Ok(r) => {
                let s = r.as_internal_file_string().to_owned();
                if bad_components(&s) {
                    why.push("repository path with empty, '.' or '..' component".into());
                }
                match r.to_fs_path(Path::new("")) {
                    Err(_) => why.push("parsed path does not convert back".into()),
                    Ok(f) => {
                        if RepoPathBuf::from_relative_path(&f).ok().as_ref() != Some(&r) {
                            why.push("round trip changed the path".into());
                        }
                    }
                }
                json!(s.as_bytes())
            }
        }
    } else {
        let base = case["base"].as_str().unwrap();
        let Ok(r) = RepoPath::from_internal_string(&p) else { return json!({"out": "invalid", "holds": true}) };
        match r.to_fs_path(Path::new(base)) {
            Err(_) => {
                if !bad_components(&p) {
                    why.push("valid repository path refused".into());
                }
                Value::Null
            }
            Ok(f) => {
                if bad_components(&p) {
                    why.push("path with '.'/'..' accepted".into());
                }
                if !f.starts_with(base) || f.components().any(|c| !matches!(c, std::path::Component::Normal(_) | std::path::Component::CurDir)) {
                    why.push("file-system path leaves the base".into());
                }
                json!(f.to_str().unwrap().as_bytes())
            }
        }
    };
    json!({"out": out, "holds": why.is_empty(), "why": why})
}

"""C14  The operation-head store never loses a published operation  (partial: per-step guarantee + interleaving lemma)

(G) real code from MIR: SimpleOpHeadsStore::update_op_heads (async_trait body), add_op_head, remove_op_head (+ closures).
    File-system calls are an effect log: fs::write / File::create / OpenOptions::open(dir/hex(id)) = add(id), fs::remove_file(dir/hex(id)) = remove(id); every call may
    fail (symbolic outcome: Ok / NotFound / other error).  Operation ids are opaque atoms with symbolic equalities.
(L) a z3 bounded model check of the abstract protocol extracted from (G) - "add the new head, then remove only its parents" - under
    every interleaving of <= 3 writers, with and without mutual exclusion, with crashes between any two steps: every published
    operation stays reachable from the heads.  (L) is a model, flagged as such; the code-level claim is (G).
"""
import itertools, re, z3
from mirsym.harness import *
from mirsym.engine import NONE, SOME, OK, ERR, StubFuture, UNIT

ID = 'C14'
TECHNIQUE = 'symbolic execution of rustc MIR (path-forking) + z3 SMT queries per path with the file system as a nondeterministic effect log; plus a z3 bounded model check of the protocol extracted from the code (flagged as a model); no native replay'
CRATES = ['jj-lib']
NATIVE = None
NATIVE_CONFIRM = False
BOUNDS = {
    'quick': '(G) old_ids of length 0..3, every equality pattern between the ids and the new id, every failure pattern of the file-system calls; (L) 2 writers x 3 operations and 3 writers x 2 operations over an arbitrary operation DAG, k <= 8 interleaved steps incl. crash points, locks effective or not',
    'thorough': '(G) old_ids of length 0..4; (L) k <= 10 steps, 3 writers',
}
ASSUMPTIONS = [
    'per-step guarantee (G) is about SimpleOpHeadsStore::update_op_heads only; its callers pass old_ids = the parents of the new operation (UnpublishedOperation::publish: operation.parent_ids(); resolve_op_heads: the heads it merged) - read from the source, not executed',
    'the file system executes write/remove_file atomically per call; readdir non-atomicity ("readers always find at least one head") and the final single-head state after loading (needs merge_operations over a real op store) are not covered',
    '(L) is a z3 model of the protocol, not code',
]
BUDGET = {'quick': 900, 'thorough': 3000}
F = 'lib/src/simple_op_heads_store.rs'

def jobs(tier):
    out = []
    for n in range(0, (4 if tier == 'quick' else 5)):
        out.append(dict(name=f'G-old{n}', what='G', n=n, rung=0, weight=3 ** n))
    out.append(dict(name='L-2writers', what='L', writers=2, ops=3, k=8 if tier == 'quick' else 10, rung=0, weight=50))
    out.append(dict(name='L-3writers', what='L', writers=3, ops=2, k=8 if tier == 'quick' else 10, rung=0, weight=80))
    return out

def run_job(ix, job, tier):
    return job_G(ix, job) if job['what'] == 'G' else job_L(ix, job)

def job_G(ix, job):
    n = job['n']
    upd = ix.find_method(F, 'SimpleOpHeadsStore', 'update_op_heads', trait='OpHeadsStore')
    old = [z3.Int(f'old{i}') for i in range(n)]; new = z3.Int('new')
    log = []
    def oid(a): return Agg([Vec([a], 'Vec')], 'OperationId')
    def atom_of_path(p):
        b = list(deref(p).l if isinstance(deref(p), Vec) else deref(p).b)
        return b[-1]
    def hex_stub(e, c, a):
        v = deref(a[0])
        return Vec([deref(v.f[0]).l[0]], 'String')
    def fs_write(e, c, a):
        log.append(('add', atom_of_path(a[0])))
        if e.choose(2) == 0: return OK(UNIT)
        log.append(('fail',)); return ERR(Agg([Enum('Other', [], 'ErrorKind')], 'io::Error'))
    def fs_remove(e, c, a):
        log.append(('remove', atom_of_path(a[0])))
        k = e.choose(3)
        if k == 0: return OK(UNIT)
        if k == 1: log.append(('notfound',)); return ERR(Agg([Enum('NotFound', [], 'ErrorKind')], 'io::Error'))
        log.append(('fail',)); return ERR(Agg([Enum('Other', [], 'ErrorKind')], 'io::Error'))
    def fs_open(e, c, a):
        # OpenOptions::open / File::create used to create the head file: Ok, AlreadyExists (tolerable, the head is there) or another error
        log.append(('add', atom_of_path(a[-1])))
        k = e.choose(3)
        if k == 0: return OK(Agg([], 'File'))
        if k == 1: log.append(('exists',)); return ERR(Agg([Enum('AlreadyExists', [], 'ErrorKind')], 'io::Error'))
        log.append(('fail',)); return ERR(Agg([Enum('Other', [], 'ErrorKind')], 'io::Error'))
    over = [(re.compile(r'OpenOptions::new$'), lambda e, c, a: Agg([], 'OpenOptions')),
            (re.compile(r'OpenOptions::(write|create_new|create|truncate|append|read)$'), lambda e, c, a: a[0]),
            (re.compile(r'OpenOptions::open::<|^(std::fs::)?File::create(_new)?::<'), fs_open),
            (re.compile(r'as ObjectId>::hex$|OperationId::hex$'), hex_stub), (re.compile(r'^(std::fs::)?write::<'), fs_write), (re.compile(r'^(std::fs::)?remove_file::<'), fs_remove),
            (re.compile(r'io::Error::kind$'), lambda e, c, a: deref(a[0]).f[0]),
            (re.compile(r'as IoResultExt<.*>>::context::<|IoResultExt.*::context'), lambda e, c, a: a[0] if a[0].v == 'Ok' else ERR(Agg([a[0].f[0]], 'PathError'))),
            (re.compile(r'as Into<Box<dyn .*Error.*>>>::into$|as From<.*>>::from$'), lambda e, c, a: a[0])]
    def run(e):
        log.clear()
        store = mk_struct(ix, F, 'SimpleOpHeadsStore', dir=Vec([100, 47], 'PathBuf'))
        fut = e.call_mir(upd, [Ref([store], 0), SliceRef([oid(x) for x in old]), Ref([oid(new)], 0)])
        r = e.poll(fut)
        return r.v, list(log)
    def obligations(k, out, pc, e):
        res, lg = out
        ops = [x for x in lg if x[0] in ('add', 'remove')]
        yield 'the first file-system effect is adding the new head', (len(ops) >= 1 and ops[0][0] == 'add') and zbool(ops[0][1] == new) if ops else False
        yield 'the new head is added exactly once', sum(1 for x in ops if x[0] == 'add') == 1
        rem = [x[1] for x in ops if x[0] == 'remove']
        yield 'only parents (old ids) other than the new id are ever removed', zand([z3.And(zor([r == o for o in old]), r != new) for r in rem])
        # an error stops the sequence: nothing happens after a failed call (NotFound on remove is tolerated and continues)
        fails = [i for i, x in enumerate(lg) if x == ('fail',)]
        yield 'a failing call ends the update (crash = prefix of the effect sequence) and is reported', (not fails) or (fails[0] == len(lg) - 1 and res == 'Err')
        if res == 'Ok':
            yield 'on success every old id different from the new id was removed', zand([z3.Or(o == new, zor([r == o for r in rem])) for o in old])
    def sample(k, out, pc): return dict(job=job['name'], effects=[tuple(str(y) for y in x) for x in out[1]], result=out[0], path_condition=[str(c)[:80] for c in pc[:6]])
    return explore_job(ix, job['name'], run, obligations, overrides=over, sample=sample, deadline=job.get('deadline'))

def job_L(ix, job):
    """BMC of the abstract protocol in z3 (no MIR): see module docstring"""
    import time
    from mirsym.harness import JobResult
    res = JobResult(job['name']); t0 = time.time()
    W, OPS, K = job['writers'], job['ops'], job['k']
    NOP = 1 + W * OPS                 # op 0 = root; each writer creates OPS operations in sequence
    def build(locks, variant):
            s = z3.Solver(); s.set('timeout', 600000); tagv = f'{locks}{variant}'
            # parents are decided at creation time: writer w's j-th op has as parents the heads it read at its read step (a non-empty subset of the heads then)
            # state per step t: head[t][o] bool, created[t][o] bool, pc[t][w] in {0:read,1:add,2..:remove_i,done}, readset[w][o]
            T = K
            head = [[z3.Bool(f'h_{tagv}_{t}_{o}') for o in range(NOP)] for t in range(T + 1)]
            pub = [[z3.Bool(f'p_{tagv}_{t}_{o}') for o in range(NOP)] for t in range(T + 1)]
            par = [[z3.Bool(f'par_{tagv}_{o}_{q}') for q in range(NOP)] for o in range(NOP)]             # q is a parent of o
            phase = [[z3.Int(f'ph_{tagv}_{t}_{w}') for w in range(W)] for t in range(T + 1)]              # 0 idle/read next, 1 add next, 2 remove next, 3 crashed
            cur = [[z3.Int(f'cur_{tagv}_{t}_{w}') for w in range(W)] for t in range(T + 1)]               # index (0..OPS) of the op being published
            sched = [z3.Int(f's_{tagv}_{t}') for t in range(T)]
            crash = [z3.Bool(f'c_{tagv}_{t}') for t in range(T)]
            opid = lambda w, j: 1 + w * OPS + j
            s.add(head[0][0], pub[0][0], *[z3.Not(head[0][o]) for o in range(1, NOP)], *[z3.Not(pub[0][o]) for o in range(1, NOP)])
            for w in range(W): s.add(phase[0][w] == 0, cur[0][w] == 0)
            for o in range(NOP): s.add(*[z3.Not(par[o][q]) for q in range(NOP) if q >= o and o != 0] if o else [z3.Not(par[0][q]) for q in range(NOP)])
            for t in range(T):
                s.add(sched[t] >= 0, sched[t] < W)
                for w in range(W):
                    act = sched[t] == w
                    same = [phase[t + 1][w] == phase[t][w], cur[t + 1][w] == cur[t][w]]
                    s.add(z3.Implies(z3.Not(act), z3.And(*same)))
                # frame conditions and transitions, per writer
                trans = []
                for w in range(W):
                    act = sched[t] == w
                    for j in range(OPS):
                        o = opid(w, j)
                        # step "read": fix parents := current heads (all of them: a transaction starts from the merged heads), requires lock discipline if locks
                        lock_free = zand([z3.Or(phase[t][v] == 0, phase[t][v] == 3) for v in range(W) if v != w]) if locks else z3.BoolVal(True)
                        rd = z3.And(act, phase[t][w] == 0, cur[t][w] == j, lock_free)
                        trans.append(z3.Implies(rd, z3.And(phase[t + 1][w] == 1, cur[t + 1][w] == j, *[par[o][q] == head[t][q] for q in range(NOP) if q < o],
                                                         *[head[t + 1][q] == head[t][q] for q in range(NOP)], *[pub[t + 1][q] == pub[t][q] for q in range(NOP)])))
                        # step "add": the new head file appears (publication point); may crash right after
                        ad = z3.And(act, phase[t][w] == (1 if variant == 'add_first' else 2), cur[t][w] == j)
                        trans.append(z3.Implies(ad, z3.And(phase[t + 1][w] == z3.If(crash[t], 3, 2 if variant == 'add_first' else 0), cur[t + 1][w] == (j if variant == 'add_first' else z3.If(crash[t], j, j + 1)), head[t + 1][o], pub[t + 1][o],
                                                         *[head[t + 1][q] == head[t][q] for q in range(NOP) if q != o], *[pub[t + 1][q] == pub[t][q] for q in range(NOP) if q != o])))
                        # step "remove": all parents are removed (modelled as one step per parent set; a crash leaves an arbitrary subset removed)
                        rm = z3.And(act, phase[t][w] == (2 if variant == 'add_first' else 1), cur[t][w] == j)
                        sub = [z3.Bool(f'sub_{tagv}_{t}_{w}_{q}') for q in range(NOP)]
                        trans.append(z3.Implies(rm, z3.And(phase[t + 1][w] == z3.If(crash[t], 3, 0 if variant == 'add_first' else 2), cur[t + 1][w] == (z3.If(crash[t], j, j + 1) if variant == 'add_first' else j),
                                                         *[head[t + 1][q] == z3.And(head[t][q], z3.Not(z3.And(par[o][q], z3.Or(z3.Not(crash[t]), sub[q])))) for q in range(NOP)],
                                                         *[pub[t + 1][q] == pub[t][q] for q in range(NOP)])))
                    # a finished or crashed writer, or one blocked by the lock, stutters
                    idle = z3.And(act, z3.Or(phase[t][w] == 3, cur[t][w] >= OPS, z3.And(phase[t][w] == 0, z3.Not(zand([z3.Or(phase[t][v] == 0, phase[t][v] == 3) for v in range(W) if v != w]) if locks else z3.BoolVal(True)))))
                    trans.append(z3.Implies(idle, z3.And(phase[t + 1][w] == phase[t][w], cur[t + 1][w] == cur[t][w], *[head[t + 1][q] == head[t][q] for q in range(NOP)], *[pub[t + 1][q] == pub[t][q] for q in range(NOP)])))
                s.add(*trans)
            # reachability: anc[o][q] = q is an ancestor-or-self of o (parents point to smaller ids... not necessarily across writers: use fixpoint unrolled NOP times)
            reach = [[z3.Bool(f'r_{tagv}_{o}_{q}_0') for q in range(NOP)] for o in range(NOP)]
            for o in range(NOP):
                for q in range(NOP): s.add(reach[o][q] == z3.BoolVal(o == q))
            for it in range(1, NOP + 1):
                nxt = [[z3.Bool(f'r_{tagv}_{o}_{q}_{it}') for q in range(NOP)] for o in range(NOP)]
                for o in range(NOP):
                    for q in range(NOP): s.add(nxt[o][q] == z3.Or(reach[o][q], *[z3.And(par[o][m], reach[m][q]) for m in range(NOP)]))
                reach = nxt
            bad = []
            for t in range(T + 1):
                bad.append(z3.Not(zor(head[t])))                                                            # no head at all
                for q in range(NOP): bad.append(z3.And(pub[t][q], z3.Not(zor([z3.And(head[t][o], reach[o][q]) for o in range(NOP)]))))   # a published op is unreachable from every head
            return s, z3.Or(*bad), pub
    for locks in (True, False):
        s, bad, pub = build(locks, 'add_first')
        s.push(); s.add(pub[K][1]); res.obligations += 1                       # vacuity: the model can publish an operation at all
        if s.check() == z3.sat: res.discharged += 1
        else: res.inconclusive.append('lemma model is vacuous: no operation can be published')
        s.pop(); s.add(bad); res.obligations += 1
        r = s.check()
        if r == z3.unsat: res.discharged += 1
        elif r == z3.sat:
            res.violations.append(Violation(job['name'], f'(L) every published operation stays reachable from some head (locks effective={locks})', {}, 'protocol model admits a losing interleaving'))
        else: res.inconclusive.append('lemma query unknown/timeout')
        res.paths += 1; res.steps += K * W * OPS
    # negative control: with the order reversed (remove parents, then add) the same query must find a losing schedule
    s, bad, pub = build(False, 'remove_first'); s.add(bad); res.obligations += 1
    if s.check() == z3.sat: res.discharged += 1
    else: res.inconclusive.append('negative control failed: the reversed protocol is not detected as losing')
    res.samples.append(dict(job=job['name'], lemma='BMC over schedules/crashes/parent choices', writers=W, ops_per_writer=OPS, steps=K))
    res.wall_s = time.time() - t0
    return res

def compare_native(case, native): return True, ''

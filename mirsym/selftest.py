"""Interpreter self-test (Serval's lesson): push the repository's own unit-test tables for the targeted functions through
the MIR interpreter in concrete mode and compare with the expected values written in the tests."""
import re, sys, os, time
from . import front
from .mir import MirIndex
from .engine import Engine, Agg, Enum, Ref, Vec, SliceRef, deref
from .harness import mk_merge, merge_vals

def tables(src):
    txt = open(os.path.join(front.REPO, src)).read()
    tm = [(list(map(int, a.split(','))), b.strip()) for a, b in re.findall(r'assert_eq!\(merge\(&\[([\d, ]+)\]\), (.*?)\);', txt)]
    gm = [(list(map(int, a.split(','))), list(map(int, b.split(',')))) for a, b in re.findall(r'assert_eq!\(c\(&\[([\d, ]+)\]\)\.get_simplified_mapping\(\), vec!\[([\d, ]+)\]\);', txt)]
    sm = [(list(map(int, a.split(','))), list(map(int, b.split(',')))) for a, b in re.findall(r'assert_eq!\(c\(&\[([\d, ]+)\]\)\.simplify\(\), c\(&\[([\d, ]+)\]\)\);', txt)]
    return tm, gm, sm

def main():
    t0 = time.time()
    mir, coro, _ = front.ensure_dump('jj-lib')
    ix = MirIndex(front.REPO).add(mir, crate='jj-lib')
    tm, gm, sm = tables('lib/src/merge.rs')
    F = 'lib/src/merge.rs'
    triv = ix.find('trivial_merge', file=F); mapping = ix.find_method(F, 'Merge', 'get_simplified_mapping'); simp = ix.find_method(F, 'Merge', 'simplify')
    n = bad = 0
    for sc in ('Keep', 'Accept'):
        for vals, exp in tm:
            e = Engine(ix)
            res = e.explore(lambda e_: e_.call_mir(triv, [SliceRef(list(vals)), Enum(sc, ty='SameChange')]))
            for kind, out, _ in res:           # several paths = several hash-map iteration orders; all must agree with the table
                n += 1
                got = None if out.v == 'None' else out.f[0].get()
                if exp == 'None': want = None
                elif exp.startswith('Some'): want = int(re.search(r'\d+', exp).group(0))
                else: want = int(re.search(r'\d+', exp).group(0)) if sc == 'Accept' else None
                if kind != 'ok' or got != want: bad += 1; print('MISMATCH trivial_merge', vals, sc, 'got', got, 'want', want)
    for vals, exp in gm:
        e = Engine(ix); res = e.explore(lambda e_: e_.call_mir(mapping, [Ref([mk_merge(vals)], 0)]))
        n += 1
        if len(res) != 1 or list(res[0][1].l) != exp: bad += 1; print('MISMATCH get_simplified_mapping', vals, res, exp)
    for vals, exp in sm:
        e = Engine(ix); res = e.explore(lambda e_: e_.call_mir(simp, [Ref([mk_merge(vals)], 0)]))
        n += 1
        if len(res) != 1 or list(merge_vals(res[0][1])) != exp: bad += 1; print('MISMATCH simplify', vals, res, exp)
    print(f'[selftest] {n} repository test-table cases pushed through the MIR interpreter, {bad} mismatches, {time.time() - t0:.1f}s')
    return 1 if bad or n < 50 else 0

if __name__ == '__main__':
    from .bigframe import run_in_big_frame
    sys.exit(run_in_big_frame(main))

use jj_lib::fileset::FilePattern;
use jj_lib::fileset::FilesetExpression;
use jj_lib::repo_path::RepoPathBuf;
use serde_json::Value;
use serde_json::json;

fn path_of(bytes: &Value) -> RepoPathBuf {
    let comps: Vec<String> = bytes.as_array().unwrap().iter().map(|b| String::from_utf8(vec![b.as_u64().unwrap() as u8]).unwrap()).collect();
    RepoPathBuf::from_internal_string(comps.join("/")).unwrap()
}

fn build(t: &Value) -> FilesetExpression {
    let a = t.as_array().unwrap();
    match a[0].as_str().unwrap() {
        "none" => FilesetExpression::None,
        "all" => FilesetExpression::All,
        "file" => FilesetExpression::Pattern(FilePattern::FilePath(path_of(&a[1]))),
        "prefix" => FilesetExpression::Pattern(FilePattern::PrefixPath(path_of(&a[1]))),
        "union" => FilesetExpression::UnionAll(a[1..].iter().map(build).collect()),
        "inter" => FilesetExpression::Intersection(Box::new(build(&a[1])), Box::new(build(&a[2]))),
        _ => FilesetExpression::Difference(Box::new(build(&a[1])), Box::new(build(&a[2]))),
    }
}

fn eval(t: &Value, q: &RepoPathBuf) -> bool {
    let a = t.as_array().unwrap();
    match a[0].as_str().unwrap() {
        "none" => false,
        "all" => true,
        "file" => path_of(&a[1]) == *q,
        "prefix" => q.starts_with(&path_of(&a[1])),
        "union" => a[1..].iter().any(|x| eval(x, q)),
        "inter" => eval(&a[1], q) && eval(&a[2], q),
        _ => eval(&a[1], q) && !eval(&a[2], q),
    }
}

pub fn c31(case: &Value) -> Value {
    let expr = build(&case["tree"]);
    let m = expr.to_matcher();
    let mut out = vec![];
    let mut ok = true;
    for q in case["queries"].as_array().unwrap() {
        let qp = path_of(q);
        let r = m.matches(&qp);
        ok &= r == eval(&case["tree"], &qp);
        out.push(r);
    }
    json!({"out": out, "holds": ok, "why": if ok { vec![] } else { vec!["matcher disagrees with the set semantics of the expression"] }})
}

use jj_lib::backend::CommitId;
use jj_lib::id_prefix::IdIndex;
use jj_lib::id_prefix::IdIndexSource;
use jj_lib::id_prefix::IdIndexSourceEntry;
use jj_lib::object_id::HexPrefix;
use jj_lib::object_id::ObjectId as _;
use jj_lib::object_id::PrefixResolution;
use serde_json::Value;
use serde_json::json;

#[derive(Clone, Copy)]
struct Table<'a>(&'a [CommitId]);
struct Entry<'a>(&'a CommitId);

impl<'a> IdIndexSource<u32> for Table<'a> {
    type Entry = Entry<'a>;
    fn entry_at(&self, pointer: &u32) -> Self::Entry {
        Entry(&self.0[*pointer as usize])
    }
}
impl IdIndexSourceEntry<CommitId> for Entry<'_> {
    fn to_key(&self) -> CommitId {
        self.0.clone()
    }
}

fn bytes(v: &Value) -> Vec<u8> {
    v.as_array().unwrap().iter().map(|b| b.as_u64().unwrap() as u8).collect()
}

pub fn c20(case: &Value) -> Value {
    let ids: Vec<CommitId> = case["ids"].as_array().unwrap().iter().map(|b| CommitId::new(bytes(b))).collect();
    let mut builder = IdIndex::<CommitId, u32, 4>::with_capacity(ids.len());
    for (i, id) in ids.iter().enumerate() {
        builder.insert(id, i as u32);
    }
    let index = builder.build();
    let table = Table(&ids);
    let mut why: Vec<String> = vec![];
    let resolve = |hex: &str| index.resolve_prefix_to_key(table, &HexPrefix::try_from_hex(hex).unwrap());
    if case["op"].as_str().unwrap() == "shortest" {
        let mut lens = vec![];
        for id in &ids {
            let l = index.shortest_unique_prefix_len(table, id);
            lens.push(l);
            let hex = id.hex();
            if l >= 1 && l <= hex.len() {
                if resolve(&hex[..l]) != PrefixResolution::SingleMatch(id.clone()) {
                    why.push(format!("shortest prefix {} does not resolve to its id", &hex[..l]));
                }
                if l >= 2 && resolve(&hex[..l - 1]) == PrefixResolution::SingleMatch(id.clone()) {
                    why.push(format!("shorter prefix {} still resolves to the id", &hex[..l - 1]));
                }
            } else {
                why.push("length out of range".into());
            }
        }
        return json!({"out": lens, "holds": why.is_empty(), "why": why});
    }
    let q = CommitId::new(bytes(&case["q"])).hex();
    let d = case["d"].as_u64().unwrap() as usize;
    let res = resolve(&q[..d]);
    let matching: Vec<&CommitId> = ids.iter().filter(|id| id.hex().starts_with(&q[..d])).collect();
    let out = match &res {
        PrefixResolution::NoMatch => json!(["No"]),
        PrefixResolution::AmbiguousMatch => json!(["Ambiguous"]),
        PrefixResolution::SingleMatch(k) => json!(["Single", k.as_bytes()]),
    };
    let ok = match &res {
        PrefixResolution::NoMatch => matching.is_empty(),
        PrefixResolution::AmbiguousMatch => matching.len() >= 2,
        PrefixResolution::SingleMatch(k) => matching.len() == 1 && matching[0] == k,
    };
    if !ok {
        why.push("resolution disagrees with the set of ids starting with the prefix".into());
    }
    json!({"out": out, "holds": why.is_empty(), "why": why})
}

use std::collections::BTreeMap;
use std::collections::BTreeSet;
use std::sync::Arc;

use async_trait::async_trait;
use jj_lib::backend::ChangeId;
use jj_lib::backend::CommitId;
use jj_lib::index::Index;
use jj_lib::index::IndexResult;
use jj_lib::merge::Merge;
use jj_lib::object_id::HexPrefix;
use jj_lib::object_id::ObjectId as _;
use jj_lib::object_id::PrefixResolution;
use jj_lib::op_store::RefTarget;
use jj_lib::refs::merge_ref_targets;
use jj_lib::repo_path::RepoPathBuf;
use jj_lib::revset::ResolvedExpression;
use jj_lib::revset::Revset;
use jj_lib::revset::RevsetEvaluationError;
use jj_lib::store::Store;
use pollster::FutureExt as _;
use serde_json::Value;
use serde_json::json;

use crate::ints;

/// An index whose only implemented query is `is_ancestor`, answered from an explicit relation.
struct RelIndex {
    anc: BTreeSet<(i64, i64)>,
}

fn cid(v: i64) -> CommitId {
    CommitId::new(v.to_be_bytes().to_vec())
}
fn cid_val(id: &CommitId) -> i64 {
    i64::from_be_bytes(id.as_bytes().try_into().unwrap())
}

#[allow(unused_variables)]
#[async_trait]
impl Index for RelIndex {
    async fn shortest_unique_commit_id_prefix_len(&self, commit_id: &CommitId) -> IndexResult<usize> {
        unimplemented!()
    }
    async fn resolve_commit_id_prefix(&self, prefix: &HexPrefix) -> IndexResult<PrefixResolution<CommitId>> {
        unimplemented!()
    }
    async fn has_id(&self, commit_id: &CommitId) -> IndexResult<bool> {
        unimplemented!()
    }
    async fn is_ancestor(&self, ancestor_id: &CommitId, descendant_id: &CommitId) -> IndexResult<bool> {
        Ok(self.anc.contains(&(cid_val(ancestor_id), cid_val(descendant_id))))
    }
    async fn common_ancestors(&self, set1: &[CommitId], set2: &[CommitId]) -> IndexResult<Vec<CommitId>> {
        unimplemented!()
    }
    fn all_heads_for_gc(&self) -> IndexResult<Box<dyn Iterator<Item = CommitId> + '_>> {
        unimplemented!()
    }
    async fn heads(&self, candidates: &mut (dyn Iterator<Item = &CommitId> + Send)) -> IndexResult<Vec<CommitId>> {
        unimplemented!()
    }
    async fn changed_paths_in_commit(
        &self,
        commit_id: &CommitId,
    ) -> IndexResult<Option<Box<dyn Iterator<Item = RepoPathBuf> + '_>>> {
        unimplemented!()
    }
    fn evaluate_revset(
        &self,
        expression: &ResolvedExpression,
        store: &Arc<Store>,
    ) -> Result<Box<dyn Revset + '_>, RevsetEvaluationError> {
        unimplemented!()
    }
}

fn target(vals: &[i64]) -> RefTarget {
    RefTarget::from_merge(Merge::from_vec(
        vals.iter().map(|v| if *v < 0 { None } else { Some(cid(*v)) }).collect::<Vec<_>>(),
    ))
}

fn den(adds: &[i64], rems: &[i64]) -> BTreeMap<i64, i64> {
    let mut m = BTreeMap::new();
    for a in adds {
        *m.entry(*a).or_insert(0) += 1;
    }
    for r in rems {
        *m.entry(*r).or_insert(0) -= 1;
    }
    m
}

pub fn c12(case: &Value) -> Value {
    let (l, b, r) = (ints(&case["left"]), ints(&case["base"]), ints(&case["right"]));
    let anc: BTreeSet<(i64, i64)> = case["anc"].as_array().unwrap().iter().map(|p| (p[0].as_i64().unwrap(), p[1].as_i64().unwrap())).collect();
    let index = RelIndex { anc: anc.clone() };
    let out = merge_ref_targets(&index, &target(&l), &target(&b), &target(&r)).block_on().unwrap();
    let o: Vec<i64> = out.as_merge().iter().map(|t| t.as_ref().map_or(-1, cid_val)).collect();
    let _ = ChangeId::new(vec![]);
    // ---- native oracle (same clauses as the solver obligations)
    let mut why: Vec<String> = vec![];
    if o.len() % 2 != 1 {
        why.push("even arity".into());
    }
    let named: BTreeSet<i64> = l.iter().chain(&b).chain(&r).copied().filter(|v| *v >= 0).collect();
    if o.iter().any(|v| *v >= 0 && !named.contains(v)) {
        why.push("names a commit no input named".into());
    }
    if l == b {
        if o != r {
            why.push("left==base but result != right".into());
        }
    } else if r == b {
        if o != l {
            why.push("right==base but result != left".into());
        }
    } else if l == r {
        if o != l {
            why.push("left==right but result != left".into());
        }
    } else {
        if l.len() == 1 && b.len() == 1 && r.len() == 1 && l[0] >= 0 && b[0] >= 0 && r[0] >= 0 {
            if anc.contains(&(b[0], l[0])) && anc.contains(&(l[0], r[0])) && o != r {
                why.push("fast-forward to right not taken".into());
            }
            if anc.contains(&(b[0], r[0])) && anc.contains(&(r[0], l[0])) && o != l {
                why.push("fast-forward to left not taken".into());
            }
        }
        let step = |v: &[i64], start: usize| -> Vec<i64> { v.iter().skip(start).step_by(2).copied().collect() };
        let adds: Vec<i64> = [step(&l, 0), step(&b, 1), step(&r, 0)].concat();
        let rems: Vec<i64> = [step(&l, 1), step(&b, 0), step(&r, 1)].concat();
        let di = den(&adds, &rems);
        let dout = den(&step(&o, 0), &step(&o, 1));
        let g = |m: &BTreeMap<i64, i64>, k: i64| m.get(&k).copied().unwrap_or(0);
        let pos: Vec<i64> = di.iter().filter(|(_, c)| **c > 0).map(|(k, _)| *k).collect();
        let neg: Vec<i64> = di.iter().filter(|(_, c)| **c < 0).map(|(k, _)| *k).collect();
        let justified = if pos.len() == 1 && neg.len() <= 1 { Some(pos[0]) } else { None };
        if let Some(v) = justified {
            if o != vec![v] {
                why.push(format!("terms cancel to {v} but result is not resolved to it"));
            }
        } else {
            let keys: BTreeSet<i64> = di.keys().chain(dout.keys()).copied().collect();
            for x in keys {
                let (i, oo) = (g(&di, x), g(&dout, x));
                if oo > 0 && !(i > 0 && oo <= i) {
                    why.push(format!("new side {x}"));
                }
                if i > 0 && oo < i {
                    let dominated = x >= 0 && pos.iter().any(|u| (*u != x && anc.contains(&(x, *u))) || (*u == x && i >= 2));
                    if !dominated {
                        why.push(format!("side {x} dropped although it is not an ancestor of another side"));
                    }
                }
                if i < 0 {
                    if !(oo >= i && oo <= 0) {
                        why.push(format!("base {x} count wrong"));
                    }
                    if oo > i && !(x < 0 || pos.iter().any(|u| anc.contains(&(x, *u)))) {
                        why.push(format!("base {x} dropped although it is not an ancestor of a side"));
                    }
                }
                if i == 0 && oo != 0 {
                    why.push(format!("cancelled value {x} reappears"));
                }
            }
        }
    }
    json!({"out": o, "holds": why.is_empty(), "why": why})
}

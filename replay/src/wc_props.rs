use jj_lib::backend::MillisSinceEpoch;
use jj_lib::local_working_copy::FileState;
use jj_lib::local_working_copy::FileType;
use serde_json::Value;
use serde_json::json;

fn ftype(s: &str) -> Option<FileType> {
    match s {
        "Symlink" => Some(FileType::Symlink),
        "GitSubmodule" => Some(FileType::GitSubmodule),
        _ => None, // ExecBit has no public constructor: Normal files cannot be built natively
    }
}

/// only the public half (FileState::is_clean) can be run natively; the caller combines it with `m_f < m_s`
pub fn c26(case: &Value) -> Value {
    if !case["tracked"].as_bool().unwrap() {
        return json!({"out": Value::Null, "holds": true, "skipped": "untracked"});
    }
    let (Some(cur), Some(new)) = (ftype(case["cur"].as_str().unwrap()), ftype(case["new"].as_str().unwrap())) else {
        return json!({"out": Value::Null, "holds": true, "skipped": "ExecBit not constructible"});
    };
    let cur = FileState { file_type: cur, mtime: MillisSinceEpoch(case["m_f"].as_i64().unwrap()), size: case["size_f"].as_u64().unwrap(), materialized_conflict_data: None };
    let new = FileState { file_type: new, mtime: MillisSinceEpoch(case["m_e"].as_i64().unwrap()), size: case["size_e"].as_u64().unwrap(), materialized_conflict_data: None };
    let clean = new.is_clean(&cur);
    let expect = cur.file_type == new.file_type && cur.mtime == new.mtime && cur.size == new.size;
    json!({"out": clean, "holds": clean == expect, "why": if clean == expect { vec![] } else { vec!["is_clean differs from its definition"] }})
}

use jj_lib::stacked_table::TableSegment as _;
use jj_lib::stacked_table::TableStore;
use serde_json::Value;
use serde_json::json;

fn bytes(v: &Value) -> Vec<u8> {
    v.as_array().unwrap().iter().map(|b| b.as_u64().unwrap() as u8).collect()
}

pub fn c21(case: &Value) -> Value {
    let ks = case["ks"].as_u64().unwrap() as usize;
    let dir = tempfile::tempdir().unwrap();
    let store = TableStore::init(dir.path().to_owned(), ks);
    let q = bytes(&case["q"]);
    let plan: Vec<Vec<(Vec<u8>, Vec<u8>)>> = case["plan"]
        .as_array()
        .unwrap()
        .iter()
        .map(|ents| ents.as_array().unwrap().iter().map(|kv| (bytes(&kv[0]), bytes(&kv[1]))).collect())
        .collect();
    let mut out = vec![];
    let mut why: Vec<String> = vec![];
    let mut model: std::collections::BTreeMap<Vec<u8>, Vec<Vec<u8>>> = Default::default();
    if case["what"].as_str().unwrap() == "seq" {
        for ents in &plan {
            let head = store.get_head().unwrap();
            let mut mt = head.start_mutation();
            for (k, v) in ents {
                mt.add_entry(k.clone(), v.clone());
                model.insert(k.clone(), vec![v.clone()]);
            }
            store.save_table(mt).unwrap();
            // reload from disk with a fresh store instance
            let reloaded = TableStore::load(dir.path().to_owned(), ks);
            let got = reloaded.get_head().unwrap().get_value(&q).map(|v| v.to_vec());
            if got != model.get(&q).map(|v| v[0].clone()) {
                why.push("lookup after save differs from last-writer-wins".into());
            }
            out.push(json!(["seq", got]));
        }
    } else {
        let mut mt = store.get_head().unwrap().start_mutation();
        for (k, v) in &plan[0] {
            mt.add_entry(k.clone(), v.clone());
            model.entry(k.clone()).or_default().clear();
            model.entry(k.clone()).or_default().push(v.clone());
        }
        let base = store.save_table(mt).unwrap();
        let mut tables = vec![];
        for ents in &plan[1..] {
            let writer = TableStore::load(dir.path().to_owned(), ks);
            let mut m = base.start_mutation();
            let mut own: std::collections::BTreeMap<Vec<u8>, Vec<u8>> = plan[0].iter().cloned().collect();
            for (k, v) in ents {
                m.add_entry(k.clone(), v.clone());
                own.insert(k.clone(), v.clone());
                model.entry(k.clone()).or_default().push(v.clone());
            }
            let t = writer.save_table(m).unwrap();
            if t.get_value(&q).map(|v| v.to_vec()) != own.get(&q).cloned() {
                why.push("writer does not see its own writes".into());
            }
            tables.push(t);
        }
        let merged = TableStore::load(dir.path().to_owned(), ks).get_head().unwrap();
        let got = merged.get_value(&q).map(|v| v.to_vec());
        let ok = match (&got, model.get(&q)) {
            (None, None) => true,
            (Some(v), Some(cands)) => cands.contains(v),
            _ => false,
        };
        if !ok {
            why.push("merged head lost or invented an entry".into());
        }
        out.push(json!(["div", got]));
        out.push(json!(["a", tables[0].get_value(&q).map(|v| v.to_vec())]));
        out.push(json!(["b", tables[1].get_value(&q).map(|v| v.to_vec())]));
    }
    json!({"out": out, "holds": why.is_empty(), "why": why})
}

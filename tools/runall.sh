#!/bin/sh
# run every registered check (quick tier by default) and print one line per property
cd "$(dirname "$0")/.." || exit 2
tier=${1:-quick}
for id in $(python3 -c "import json; print(' '.join(c['property_id'] for c in json.load(open('MANIFEST.json'))['checks']))"); do
  start=$(date +%s)
  out=$(./check $id --tier $tier 2>&1); rc=$?
  echo "$id rc=$rc $(($(date +%s)-start))s :: $(echo "$out" | grep -E '^\[C|VIOLATION|INCONCLUSIVE' | head -3 | tr '\n' ' ' | cut -c1-400)"
done

"""C33  Git ref names and jj bookmark/tag symbols map one-to-one  (lib/src/git.rs)

Real code from MIR: to_git_ref_name (+closure), parse_git_ref, to_git_or_remote_tag_ref_name, parse_remote_tag_ref; `format!` is
executed through the decoded fmt template byte-code.  Names are byte strings of symbolic ASCII bytes whose length is forked over
the bound.
"""
import z3
from mirsym.harness import *
from mirsym.engine import NONE, SOME

ID = 'C33'
TECHNIQUE = 'symbolic execution of rustc MIR (path-forking) + z3 SMT queries per path; path witnesses validated natively through parse_git_ref, export-side violations reported on the solver verdict (to_git_ref_name is private)'
CRATES = ['jj-lib']
NATIVE = 'c33'
NATIVE_CONFIRM = False     # to_git_ref_name is private: only parse_git_ref can be run natively (path witnesses are validated against it);
                           # counterexamples involving the export direction are reported on the solver's verdict over the real MIR
BOUNDS = {
    'quick': 'export->parse: kind in {Bookmark, Tag}, name 0..5 bytes, remote 0..4 bytes (every ASCII byte value, remote without "/"); import->export: every valid ASCII ref name of 0..19 bytes; remote-tag namespace: name 1..3, remote 1..4',
    'thorough': 'export->parse: name 0..7, remote 0..5; import->export: ref names 0..24 bytes; remote-tag namespace: name 1..5, remote 1..5',
}
ASSUMPTIONS = [
    'exported symbols: remote contains no "/" (validate_remote_name; gix::remote::name::validated is outside the encoding and assumed to accept); bytes are ASCII',
    'imported ref names are valid Git ref names at least in that no path component is empty and the name neither starts nor ends with "/" (all that gix yields); bytes are ASCII',
    'RefName/RemoteName/GitRefName new()/as_str() are identity conversions on str (ref-cast newtypes); String: From/Into are identity',
    'uniqueness of the exported name (two symbols never share a ref name) is a consequence of export->parse round-tripping, not a separate query',
]
BUDGET = {'quick': 900, 'thorough': 2400}
F = 'lib/src/git.rs'

def jobs(tier):
    out = []
    mn, mr, ml, tn, tr = (5, 4, 19, 3, 4) if tier == 'quick' else (7, 5, 24, 5, 5)
    for kind in ('Bookmark', 'Tag'):
        for ln in range(0, mn + 1):
            for lr in range(0, mr + 1):
                out.append(dict(name=f'export-{kind}-n{ln}-r{lr}', what='export', kind=kind, ln=ln, lr=lr, rung=0 if ln <= 4 and lr <= 3 else 1, weight=2 ** (ln + lr)))
    for l in range(0, ml + 1):
        out.append(dict(name=f'import-len{l}', what='import', l=l, rung=0 if l <= 17 else 1, weight=2 ** max(0, l - 8)))
    for ln in range(1, tn + 1):
        for lr in range(1, tr + 1):
            out.append(dict(name=f'remote-tag-n{ln}-r{lr}', what='rtag', ln=ln, lr=lr, rung=0, weight=2 ** (ln + lr)))
    return out

def sym_str(name, n): return [byte(f'{name}{i}') for i in range(n)]
def sv(x):
    x = deref(x)
    while isinstance(x, Agg) and len(x.f) == 1: x = deref(x.f[0])
    return x.b if isinstance(x, Str) else x.l
def ascii_(bs): return [z3.ULT(b, 0x80) for b in bs]
def lit(s): return [ord(ch) for ch in s]
def beq(a, b):
    if len(a) != len(b): return z3.BoolVal(False)
    return zand([x == y for x, y in zip(a, b) if not (isinstance(x, int) and isinstance(y, int) and x == y)]) if all(not (isinstance(x, int) and isinstance(y, int) and x != y) for x, y in zip(a, b)) else z3.BoolVal(False)
def symbol(nb, rb): return Agg([Ref([Str(nb)], 0), Ref([Str(rb)], 0)], 'RemoteRefSymbol')
def unsym(back):
    k2, sym2 = back.f[0].f
    return k2.v, sv(sym2.f[0]), sv(sym2.f[1])

def run_job(ix, job, tier):
    return {'export': job_export, 'import': job_import, 'rtag': job_rtag}[job['what']](ix, job)

def job_export(ix, job):
    kind, ln, lr = job['kind'], job['ln'], job['lr']
    to_git = ix.find('to_git_ref_name', file=F); parse = ix.find('parse_git_ref', file=F)
    nb, rb = sym_str('n', ln), sym_str('r', lr)
    pre = zand(ascii_(nb + rb) + [b != ord('/') for b in rb])
    def run(e):
        g = e.call_mir(to_git, [Enum(kind, ty='GitRefKind'), symbol(nb, rb)])
        if g.v == 'None': return ('none',)
        gname = g.f[0]
        back = e.call_mir(parse, [Ref([gname], 0)])
        return ('some', list(sv(gname)), back)
    is_git = beq(rb, lit('git'))
    def obligations(k, out, pc, e):
        exportable = z3.And(ln > 0, lr > 0, z3.Not(beq(nb, lit('HEAD')))) if kind == 'Bookmark' else z3.And(ln > 0, is_git)
        if out[0] == 'none':
            yield 'a symbol is refused only if it is not exportable (empty name/remote, bookmark named HEAD, remote tag)', z3.Not(exportable)
            return
        yield 'only exportable symbols get a ref name', exportable
        back = out[2]
        if back.v != 'Some':
            yield 'the exported ref name parses back', False
            return
        k2, n2, r2 = unsym(back)
        yield 'parsing the exported ref name gives back the same kind, name and remote', zand([k2 == kind, beq(n2, nb), beq(r2, rb)])
        expect = lit('refs/heads/') + nb if kind == 'Bookmark' else lit('refs/tags/') + nb
        expect_remote = lit('refs/remotes/') + rb + [ord('/')] + nb
        yield 'the ref name is the documented one', z3.If(is_git, beq(out[1], expect), beq(out[1], expect_remote)) if kind == 'Bookmark' else beq(out[1], expect)
    def witness(m, k, out):
        if k != 'ok' or out[0] == 'none': return dict(input=dict(ref=[0x78]), expect='skip')
        g = [mval(m, b) for b in out[1]]
        exp = None
        if out[2].v == 'Some':
            k2, n2, r2 = unsym(out[2]); exp = dict(kind=k2, name=[mval(m, b) for b in n2], remote=[mval(m, b) for b in r2])
        return dict(input=dict(ref=g, symbol=dict(kind=kind, name=[mval(m, b) for b in nb], remote=[mval(m, b) for b in rb])), expect=exp)
    return explore_job(ix, job['name'], run, obligations, pre=pre, witness=witness, deadline=job.get('deadline'))

def valid_ref(g):
    cs = ascii_(g)
    if g: cs += [g[0] != ord('/'), g[-1] != ord('/')]
    cs += [z3.Not(z3.And(a == ord('/'), b == ord('/'))) for a, b in zip(g, g[1:])]
    return zand(cs)

def job_import(ix, job):
    l = job['l']; g = sym_str('g', l)
    to_git = ix.find('to_git_ref_name', file=F); parse = ix.find('parse_git_ref', file=F)
    def run(e):
        back = e.call_mir(parse, [Ref([Str(list(g))], 0)])
        if back.v != 'Some': return ('none',)
        k2, n2, r2 = unsym(back)
        again = e.call_mir(to_git, [Enum(k2, ty='GitRefKind'), symbol(list(n2), list(r2))])
        return ('some', k2, n2, r2, again)
    def starts(p): return beq(g[:len(p)], lit(p)) if len(g) >= len(p) else z3.BoolVal(False)
    def obligations(k, out, pc, e):
        if out[0] == 'none':
            # refs that jj must be able to import: local branches and tags (except branch HEAD)
            yield 'every local branch except HEAD is imported', z3.Not(z3.And(starts('refs/heads/'), z3.Not(beq(g, lit('refs/heads/HEAD')))))
            yield 'every local tag is imported', z3.Not(starts('refs/tags/'))
            return
        again = out[4]
        yield 'an imported ref is exported again under the same name', (zbool(again.v == 'Some') if again.v != 'Some' else beq(sv(again.f[0]), g))
        yield 'imported symbols have non-empty name and remote', (len(out[2]) > 0 and len(out[3]) > 0)
    def witness(m, k, out):
        gv = [mval(m, b) for b in g]
        if k != 'ok': return dict(input=dict(ref=gv), expect='skip')
        exp = None if out[0] == 'none' else dict(kind=out[1], name=[mval(m, b) for b in out[2]], remote=[mval(m, b) for b in out[3]])
        return dict(input=dict(ref=gv), expect=exp)
    return explore_job(ix, job['name'], run, obligations, pre=valid_ref(g), witness=witness, deadline=job.get('deadline'))

def job_rtag(ix, job):
    ln, lr = job['ln'], job['lr']
    to_rt = ix.find('to_git_or_remote_tag_ref_name', file=F); parse_rt = ix.find('parse_remote_tag_ref', file=F); parse = ix.find('parse_git_ref', file=F)
    nb, rb = sym_str('n', ln), sym_str('r', lr)
    pre = zand(ascii_(nb + rb) + [b != ord('/') for b in rb])
    def run(e):
        g = e.call_mir(to_rt, [symbol(nb, rb)])
        b1 = e.call_mir(parse_rt, [Ref([g], 0)]); b2 = e.call_mir(parse, [Ref([g], 0)])
        return list(sv(g)), b1, b2
    is_git = beq(rb, lit('git'))
    def obligations(k, out, pc, e):
        g, b1, b2 = out
        def same(back): return z3.BoolVal(False) if back.v != 'Some' else (lambda t: zand([t[0] == 'Tag', beq(t[1], nb), beq(t[2], rb)]))(unsym(back))
        yield 'a local tag ref name parses back through parse_git_ref', z3.Implies(is_git, same(b2))
        yield 'a remote tag ref name parses back through parse_remote_tag_ref and is not mistaken for a bookmark/tag ref', z3.Implies(z3.Not(is_git), z3.And(same(b1), zbool(b2.v == 'None')))
    return explore_job(ix, job['name'], run, obligations, pre=pre, deadline=job.get('deadline'))

def compare_native(case, native):
    if case.get('expect') == 'skip': return True, ''
    if 'panic' in native: return False, f'native panic {native["panic"]}'
    return native.get('out') == case['expect'], f'native {native.get("out")} != symbolic {case["expect"]}'

"""MIR text front end: index a -Zunpretty=mir dump (with -Zmir-include-spans=on), parse bodies lazily,
recover impl self types from the source tree."""
import re, os, hashlib

def strip_lifetimes(s):
    s = re.sub(r"::<'[\w_]+(, '[\w_]+)*>", '', s)
    s = re.sub(r"<'[\w_]+(, '[\w_]+)*>", '', s)
    s = re.sub(r"'[\w_]+, ", '', s)
    s = re.sub(r"&'[\w_]+ ", '&', s)
    return s

def split_top(s, sep=','):
    out, depth, cur, i, instr = [], 0, [], 0, False
    n = len(s)
    while i < n:
        c = s[i]
        if instr:
            cur.append(c)
            if c == '\\': cur.append(s[i + 1]); i += 1
            elif c == '"': instr = False
        elif c == '"' and (i == 0 or s[i - 1] != "'"): instr = True; cur.append(c)
        elif c in '([{<': depth += 1; cur.append(c)
        elif c in ')]}': depth -= 1; cur.append(c)
        elif c == '>':
            if i and s[i - 1] in '-=': cur.append(c)
            else: depth -= 1; cur.append(c)
        elif c == sep and depth == 0: out.append(''.join(cur).strip()); cur = []
        else: cur.append(c)
        i += 1
    t = ''.join(cur).strip()
    if t: out.append(t)
    return out

def _strip_ref(ty):
    ty = ty.strip()
    while ty.startswith(('&', '*')):
        ty = re.sub(r"^(&mut |&raw const |&raw mut |&|\*const |\*mut )", '', ty).strip()
    return ty

def last_seg(ty):
    """'&mut op_store::RefTarget<'a>' -> 'RefTarget'"""
    return type_key(ty).split('::')[-1].strip()

def type_key(ty):
    """printed (trimmed) path of a type without refs/generics: '&mut op_store::RefTarget<'a>' -> 'op_store::RefTarget'"""
    ty = _strip_ref(ty)
    d = 0; out = []
    for i, c in enumerate(ty):
        if c == '<': d += 1
        elif c == '>' and (i == 0 or ty[i - 1] != '-'): d -= 1
        elif d == 0: out.append(c)
    ty = ''.join(out).strip()
    while ty.endswith('::'): ty = ty[:-2]
    return ty

_SPAN_RX = re.compile(r'\s*// (?:return place )?(?:in )?scope \d+ at (.*)$')
def strip_span(s):
    """drop the trailing `// scope N at file:l:c: l:c` comment that -Zmir-include-spans=on appends"""
    i = s.rfind(' // ')
    if i < 0: return s, None
    m = _SPAN_RX.search(s, max(0, i - 1))
    return (s[:m.start()].rstrip(), m.group(1)) if m else (s, None)

class Fn:
    __slots__ = ('name', 'args', 'ret', 'blocks', 'types', 'header', 'selfty', 'byref', 'lo', 'hi', 'file', 'line', 'spans', 'lines', 'crate')
    def __init__(self, name, header, lo):
        self.name, self.header, self.lo = name, header, lo
        self.blocks = None; self.types = {}; self.args = []; self.ret = ''; self.file = None; self.line = None
        self.hi = None; self.selfty = None; self.byref = False; self.spans = None; self.lines = None; self.crate = None
    def __repr__(self): return f'<Fn {self.name} @{self.file}:{self.line}>'

def _parse_body(fn, lines):
    """lines: body lines (between header and closing brace)"""
    fn.blocks = {}; fn.spans = {}; bb = None; cur = None
    for l in lines:
        s = l.strip()
        if not s or s.startswith('//'): continue
        m = re.match(r'^bb(\d+)(?: \(cleanup\))?: \{$', s)
        if m: cur = int(m.group(1)); bb = []; fn.blocks[cur] = bb; fn.spans[cur] = []; continue
        s, span = strip_span(s)
        if bb is None:
            m = re.match(r'^let (?:mut )?_(\d+): (.*);$', s)
            if m: fn.types[int(m.group(1))] = m.group(2)
            continue
        if s == '}': bb = None; continue
        bb.append(s[:-1] if s.endswith(';') else s); fn.spans[cur].append(span)
    for i, a in enumerate(fn.args): fn.types[i + 1] = a
    fn.types[0] = fn.ret
    return fn

class MirIndex:
    def __init__(self, repo='/repo'):
        self.repo = repo
        self.lines = []
        self.fns = []            # all items in order
        self.by_name = {}        # name -> [Fn]
        self.by_simple = {}      # last segment -> [Fn]
        self.closure_by_span = {}; self.simple_consts = {}
        self.coro = {}
        self._src = {}
        self._impl_cache = {}; self._impl_ref = set(); self._impl_selfraw = {}; self.alloc_static = {}

    def add(self, path, crate=None):
        base = len(self.lines)
        with open(path) as f: new_lines = f.read().split('\n')
        self.lines.extend(new_lines)
        cur = None
        for i, l in enumerate(new_lines, base):
            if l.startswith(('fn ', 'const ', 'static ')) and l.endswith('{'):
                kind, rest = l.split(' ', 1)
                name, args, ret = self._split_header(rest, kind)
                fn = Fn(name, l, i); fn.args, fn.ret, fn.crate = args, ret, crate
                self.fns.append(fn); cur = fn
                self.by_name.setdefault(name, []).append(fn)
                self.by_simple.setdefault(self.simple(name), []).append(fn)
                if args:
                    m = re.match(r'(&mut |&)?(\{(?:async )?closure@[^}]*\})', args[0])
                    if m and name.endswith('}'):
                        fn.selfty, fn.byref = m.group(2), bool(m.group(1))
                        self.closure_by_span.setdefault(m.group(2).replace('{async closure@', '{closure@'), []).append(fn)
            elif l.startswith('const ') and l.endswith(';') and ' = ' in l:
                mm = re.match(r'const ([\w:]+): (.*?) = (.*);$', l)
                if mm: self.simple_consts[mm.group(1).split('::')[-1]] = mm.group(3)
            elif l == '}' and cur is not None:
                cur.hi = i; cur = None
            elif l.startswith('alloc') and '(static: ' in l:
                mm = re.match(r'alloc(\d+) \(static: ([^,)]+)', l)
                if mm: self.alloc_static[(crate, int(mm.group(1)))] = mm.group(2)
            elif cur is not None and cur.file is None and ' at ' in l and '// ' in l:
                m = re.search(r'scope \d+ at ([^:]+):(\d+):', l)
                if m and not m.group(1).startswith('/'): cur.file, cur.line = m.group(1), int(m.group(2))
        return self

    @staticmethod
    def simple(name):
        # last path segment, generics stripped
        d = 0; seg = []
        for c in name:
            if c in '<[{(': d += 1; seg.append(c)
            elif c in '>]})': d -= 1; seg.append(c)
            elif c == ':' and d == 0: seg = []
            else: seg.append(c)
        s = ''.join(seg)
        return re.sub(r'<.*', '', s) if not s.startswith('{') else s

    def _split_header(self, rest, kind):
        d = 0; end = None
        for i, c in enumerate(rest):
            if c in '<[{': d += 1
            elif c in ']}': d -= 1
            elif c == '>' and rest[i - 1] != '-': d -= 1
            elif d == 0 and c == '(' and kind == 'fn': end = i; break
            elif d == 0 and c == ':' and kind != 'fn' and rest[i:i + 2] != '::' and rest[i - 1] != ':': end = i; break
        name = rest[:end].strip()
        if kind != 'fn': return name, [], rest[end + 1:].rsplit('=', 1)[0].strip()
        # find matching paren
        d = 0
        for j in range(end, len(rest)):
            if rest[j] == '(': d += 1
            elif rest[j] == ')':
                d -= 1
                if d == 0: break
        args = [a.split(': ', 1)[1] for a in split_top(rest[end + 1:j]) if ': ' in a]
        ret = rest[j + 1:].strip()
        ret = ret[2:].strip() if ret.startswith('->') else ''
        ret = ret[:-1].strip() if ret.endswith('{') else ret
        return name, args, ret

    def body(self, fn):
        if fn.blocks is not None: return fn
        return _parse_body(fn, self.lines[fn.lo + 1:fn.hi])

    def body_hash(self, fn):
        """content hash of the function's MIR text without span comments (for evidence)"""
        lines = fn.lines if fn.lines is not None else self.lines[fn.lo:fn.hi]
        h = hashlib.sha256()
        for l in lines: h.update(strip_span(l.strip())[0].encode()); h.update(b'\n')
        return h.hexdigest()[:12]

    def load_coroutines(self, path, crate=None):
        """pre-StateTransform bodies of async fns / async closures, keyed by the coroutine type in `_1`"""
        txt = open(path).read()
        n = 0
        for chunk in txt.split('// ---- ')[1:]:
            lines = chunk.split('\n')
            hi = None
            for i, l in enumerate(lines):
                if l.startswith('fn '): hi = i; break
            if hi is None or not (len(lines) > hi + 1 and lines[hi + 1].startswith('yields')): continue
            kind, rest = lines[hi].split(' ', 1)
            name, args, ret = self._split_header(rest + ' {', 'fn')
            f = Fn(name, lines[hi], 0); f.args, f.ret, f.crate = args, ret, crate
            f.lines = lines[hi:]
            for l in lines[hi + 2: hi + 12]:
                m = re.search(r'scope \d+ at ([^:]+):(\d+):', l)
                if m and not m.group(1).startswith('/'): f.file, f.line = m.group(1), int(m.group(2)); break
            _parse_body(f, lines[hi + 3:])
            self.coro[strip_lifetimes(args[0])] = f; n += 1
        return n

    # ---- lookup helpers for harnesses
    def find(self, simple, frag=None, nargs=None, file=None):
        """unique function with last segment `simple` whose printed name contains `frag` / defined in `file`"""
        c = [f for f in self.by_simple.get(simple, []) if (frag is None or frag in f.name) and (nargs is None or len(f.args) == nargs)
             and (file is None or f.file == file) and f.header.startswith('fn ')]
        if len(c) != 1: raise AnchorError(f'anchor not found uniquely: {simple} frag={frag} file={file}: {[f.name for f in c]}')
        return c[0]

    def find_method(self, file, selfty, meth, trait=None, nargs=None):
        """method `meth` of an impl block in `file` whose Self type's last segment is `selfty` (and trait, if given)"""
        out = []
        for f in self.by_simple.get(meth, []):
            if '<impl at ' + file + ':' not in f.name or not f.name.endswith('::' + meth): continue
            info = self.impl_info(f.name)
            if info is None: continue
            if info[1] == selfty and (trait is None and info[0] is None or trait == info[0] or trait == '*') and (nargs is None or len(f.args) == nargs): out.append(f)
        if len(out) != 1: raise AnchorError(f'anchor not found uniquely: {file} impl {trait or ""} {selfty}::{meth}: {[f.name for f in out]}')
        return out[0]

    # ---- impl self type recovery from source
    def src(self, file):
        if file not in self._src:
            p = os.path.join(self.repo, file)
            self._src[file] = open(p).read().split('\n') if os.path.exists(p) else []
        return self._src[file]

    def impl_generic_names(self, name):
        """names of the generic parameters as they appear in the Self type of the impl block: `impl<A, B> Tr for Ty<A, B>` -> ['A', 'B']"""
        self.impl_info(name)
        m = re.search(r'<impl at ([^:>]+):(\d+):(\d+): (\d+):(\d+)>', name)
        if not m: return []
        raw = self._impl_selfraw.get(m.group(0))
        if not raw: return []
        mm = re.search(r'<(.*)>\s*$', raw.strip())
        if not mm: return []
        return [t.strip().split(':')[0].strip() for t in split_top(mm.group(1)) if not t.strip().startswith("'")]

    def impl_self_is_ref(self, name):
        """true if the impl block is `impl Trait for &T` (self type is a reference)"""
        self.impl_info(name)
        m = re.search(r'<impl at ([^:>]+):(\d+):(\d+): (\d+):(\d+)>', name)
        return bool(m) and m.group(0) in self._impl_ref

    def impl_info(self, name):
        """for 'mod::<impl at file:l:c: l:c>::meth' return (trait or None, selftype last segment or None)"""
        m = re.search(r'<impl at ([^:>]+):(\d+):(\d+): (\d+):(\d+)>', name)
        if not m: return None
        key = m.group(0)
        if key in self._impl_cache: return self._impl_cache[key]
        file, l1, c1, l2, c2 = m.group(1), int(m.group(2)), int(m.group(3)), int(m.group(4)), int(m.group(5))
        lines = self.src(file); res = (None, None)
        if lines and l1 <= len(lines):
            text = lines[l1 - 1]
            if l1 == l2 and '#[derive' in text and 'impl' not in text[c1 - 1:c2 - 1]:
                trait = text[c1 - 1:c2 - 1]
                ty = None
                for k in range(l1, min(l1 + 15, len(lines))):
                    mm = re.match(r'\s*(?:pub(?:\([^)]*\))? )?(?:struct|enum|union) (\w+)\s*(<[^{(;]*>)?', lines[k])
                    if mm: ty = mm.group(1); self._impl_selfraw[key] = ty + (mm.group(2) or ''); break
                res = (trait.split('::')[-1], ty)
            else:
                hdr = ' '.join(lines[l1 - 1:l2])[c1 - 1:] if l1 != l2 else text[c1 - 1:c2 - 1]
                hdr = hdr.split('{')[0]
                mm = re.match(r'(?:unsafe )?impl\s*(<.*?>)?\s*(.*)$', hdr.strip())
                if mm:
                    body = mm.group(2)
                    # strip leading generics (nested) properly
                    if hdr.strip()[4:].lstrip().startswith('<'):
                        s = hdr.strip()[4:].lstrip(); d = 0
                        for i, c in enumerate(s):
                            if c == '<': d += 1
                            elif c == '>' and s[i - 1] != '-':
                                d -= 1
                                if d == 0: body = s[i + 1:].strip(); break
                    body = body.split(' where ')[0].strip()
                    if ' for ' in body:
                        tr, ty = body.split(' for ', 1)
                        res = (last_seg(tr), last_seg(ty)); self._impl_selfraw[key] = _strip_ref(strip_lifetimes(ty))
                        if ty.strip().startswith('&'): self._impl_ref.add(key)
                    else: res = (None, last_seg(body)); self._impl_selfraw[key] = _strip_ref(strip_lifetimes(body))
        self._impl_cache[key] = res
        return res

class AnchorError(Exception): pass

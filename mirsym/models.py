"""Native models of std / itertools / smallvec / futures callees (prototype)."""
import re, itertools
import z3
from .engine import (Agg, Enum, Ref, SliceRef, Vec, Coro, StubFuture, UBox, TRANSP, It, Panic, EngineError,
                    NONE, SOME, OK, ERR, UNIT, deref, Str)
from .mir import last_seg

def register(E):
    R = lambda rx: (lambda f: (E.models.append((re.compile(rx), f)), f)[1])

    # ------------------------------------------------ structural helpers with trait dispatch
    def eq_val(e, a, b):
        a, b = deref(a), deref(b)
        ty = getattr(a, 'ty', None)
        if isinstance(a, (Agg, Enum)) and ty and ty not in ('tup', 'arr', 'Option', 'Result', 'unit'):
            f = e._find_impl('eq', 'PartialEq', ty, 2)
            if f is not None: return e.call_mir(f, [Ref([a], 0), Ref([b], 0)])
        if isinstance(a, Enum):
            if a.v != b.v: return False
            return conj([eq_val(e, x, y) for x, y in zip(a.f, b.f)])
        if isinstance(a, Agg): return conj([eq_val(e, x, y) for x, y in zip(a.f, b.f)])
        if isinstance(a, Str) or isinstance(b, Str) or (isinstance(a, Vec) and a.ty in ('String', 'BString')):
            ba = a.b if isinstance(a, Str) else (a.l if isinstance(a, Vec) else a.items()); bb = b.b if isinstance(b, Str) else (b.l if isinstance(b, Vec) else b.items())
            if len(ba) != len(bb): return False
            return conj([(x == y) for x, y in zip(ba, bb) if not (isinstance(x, int) and isinstance(y, int) and x == y)])
        if isinstance(a, (Vec, SliceRef)):
            la = a.l if isinstance(a, Vec) else a.items(); lb = b.l if isinstance(b, Vec) else b.items()
            if len(la) != len(lb): return False
            return conj([eq_val(e, x, y) for x, y in zip(la, lb)])
        if isinstance(a, Str) or (isinstance(a, Vec) and a.ty == 'String'):
            ba = a.b if isinstance(a, Str) else a.l; bb = b.b if isinstance(b, Str) else b.l
            if len(ba) != len(bb): return False
            return conj([(x == y) if not (isinstance(x, int) and isinstance(y, int)) else x == y for x, y in zip(ba, bb)])
        r = (a == b)
        return bool(r) if isinstance(r, bool) else r
    def conj(cs):
        cs = [c for c in cs if c is not True]
        if any(c is False for c in cs): return False
        if not cs: return True
        return cs[0] if len(cs) == 1 else z3.And(*cs)
    E.eq_val = lambda a, b: eq_val(E, a, b)

    def clone_val(e, v):
        v = deref(v)
        ty = getattr(v, 'ty', None)
        if isinstance(v, (Agg, Enum)) and ty and ty not in ('tup', 'arr', 'Option', 'Result', 'unit', 'Pin'):
            f = e._find_impl('clone', 'Clone', ty, 1)
            if f is not None: return e.call_mir(f, [Ref([v], 0)])
        if isinstance(v, Enum): return Enum(v.v, [clone_val(e, x) if not isinstance(x, Ref) else x for x in v.f], v.ty)
        if isinstance(v, Agg):
            a = Agg([clone_val(e, x) if not isinstance(x, Ref) else x for x in v.f], v.ty); a.env = v.env; return a
        if isinstance(v, Vec): return Vec([clone_val(e, x) if not isinstance(x, Ref) else x for x in v.l], v.ty)
        return v
    E.clone_val = lambda v: clone_val(E, v)

    def as_iter(e, x):
        if isinstance(x, It): return x
        x0_ = deref(x)
        if isinstance(x0_, Enum) and x0_.ty == 'Option': return It('list', l=([Ref(x0_.f, 0)] if isinstance(x, Ref) else list(x0_.f)) if x0_.v == 'Some' else [], pos=0)
        if isinstance(x, (Agg, Enum)) and x.ty and x.ty.endswith('Either') and len(x.f) == 1: return as_iter(e, x.f[0])
        if isinstance(x, SliceRef): return It('slice', l=x.l, pos=x.lo, end=x.hi)
        if isinstance(x, Vec): return It('list', l=list(x.l), pos=0)
        if isinstance(x, Agg) and x.ty and 'RangeFrom' in x.ty: return It('range', pos=x.f[0], end=float('inf'))
        if isinstance(x, Agg) and x.ty and 'Range' in x.ty: return It('range', pos=x.f[0], end=x.f[1])
        if isinstance(x, Agg) and x.ty == 'arr': return It('list', l=list(x.f), pos=0)
        if isinstance(x, Agg) and x.ty and e._find_impl('next', 'Iterator', x.ty, 1) is not None: return It('crate', obj=[x])
        if isinstance(x, Ref):
            v = x.get()
            if isinstance(v, Agg) and v.ty and v.ty not in ('arr', 'tup'):
                from .mir import type_key, strip_lifetimes
                cands = [f for f in e.ix.by_simple.get('into_iter', []) if f.args and strip_lifetimes(f.args[0]).startswith('&') and type_key(f.args[0]) == v.ty]
                if cands:
                    cands.sort(key=lambda f: not strip_lifetimes(f.args[0]).startswith('&mut '))
                    return as_iter(e, e.call_mir(cands[0], [x]))
            if isinstance(v, Vec) and v.ty == 'HashSet':
                p = e.pick_order(len(v.l))
                return It('list', l=[Ref(v.l, i) for i in p], pos=0)
            return as_iter(e, as_slice(v))
        if hasattr(e, 'it_of'): return e.it_of(x)
        raise EngineError(f'as_iter {x!r}')
    def as_slice(v):
        if isinstance(v, SliceRef): return v
        if isinstance(v, Vec): return SliceRef(v.l)
        if isinstance(v, Agg) and v.ty == 'arr': return SliceRef(v.f)
        raise EngineError(f'as_slice {v!r}')

    def _it_next_base(e, it):
        k = it.kind
        if k == 'slice':
            if it.pos >= it.end: return NONE()
            it.pos += 1; return SOME(Ref(it.l, it.pos - 1))
        if k == 'list':
            if it.pos >= len(it.l): return NONE()
            it.pos += 1; return SOME(it.l[it.pos - 1])
        if k == 'range':
            if it.pos >= it.end: return NONE()
            it.pos += 1; return SOME(it.pos - 1)
        if k == 'cycle':
            v = it.l[it.pos % len(it.l)]; it.pos += 1; return SOME(v)
        if k == 'zip':
            a = it_next(e, it.a)
            if a.v == 'None': return a
            b = it_next(e, it.b)
            if b.v == 'None': return b
            return SOME(Agg([a.f[0], b.f[0]], 'tup'))
        if k == 'chain':
            if it.a is not None:
                a = it_next(e, it.a)
                if a.v == 'Some': return a
                it.a = None
            return it_next(e, it.b)
        if k == 'enumerate':
            a = it_next(e, it.a)
            if a.v == 'None': return a
            it.n += 1; return SOME(Agg([it.n - 1, a.f[0]], 'tup'))
        if k == 'skip':
            while it.n > 0:
                it.n -= 1
                if it_next(e, it.a).v == 'None': return NONE()
            return it_next(e, it.a)
        if k == 'step_by':
            if it.first: it.first = False; return it_next(e, it.a)
            for _ in range(it.step - 1):
                if it_next(e, it.a).v == 'None': return NONE()
            return it_next(e, it.a)
        if k == 'map':
            a = it_next(e, it.a)
            if a.v == 'None': return a
            return SOME(e.closure_call(it.f, [a.f[0]]))
        if k == 'rev':
            if not hasattr(it, 'buf'):
                it.buf = []
                while True:
                    a = it_next(e, it.a)
                    if a.v == 'None': break
                    it.buf.append(a.f[0])
            return SOME(it.buf.pop()) if it.buf else NONE()
        if k == 'crate': return e.call_mir(e._find_impl('next', 'Iterator', it.obj[0].ty, 1), [Ref(it.obj, 0)])
        raise EngineError('it_next ' + k)
    E._it_next_base = lambda it: _it_next_base(E, it)
    E.it_next = E._it_next_base
    def it_next(e, it): return e.it_next(it)
    def drain(e, it):
        out = []
        while True:
            n = it_next(e, it)
            if n.v == 'None': return out
            out.append(n.f[0])

    # ------------------------------------------------ traits
    @R(r'as PartialEq(<.*>)?>::(eq|ne)$')
    def _(e, c, a):
        r = eq_val(e, a[0], a[1])
        if c.endswith('::ne'): return (not r) if isinstance(r, bool) else z3.Not(r)
        return r
    @R(r'as Clone>::clone$')
    def _(e, c, a):
        inner = a[0].get() if isinstance(a[0], Ref) else a[0]
        if isinstance(inner, (Ref, SliceRef)): return inner          # clone of a reference is the reference
        return clone_val(e, inner)
    @R(r'as (std::ops::)?Deref(Mut)?>::deref(_mut)?$')
    def _(e, c, a):
        v = deref(a[0])
        if isinstance(v, (Vec,)): return SliceRef(v.l)
        if isinstance(v, SliceRef): return v
        raise EngineError(f'deref model on {v!r}')
    @R(r'as (std::ops::)?Index(Mut)?<usize>>::index(_mut)?$')
    def _(e, c, a):
        v, i = deref(a[0]), a[1]
        if not isinstance(i, int): raise EngineError('symbolic index')
        l, off, n = (v.l, v.lo, len(v)) if isinstance(v, SliceRef) else (v.l, 0, len(v.l))
        if i >= n: raise Panic('index out of bounds')
        return Ref(l, off + i)
    @R(r'as (std::ops::)?Index(Mut)?<(std::ops::)?Range(From|To)?<usize>>>::index(_mut)?$|as (std::ops::)?Index(Mut)?<(std::ops::)?RangeFull>>::index(_mut)?$')
    def _(e, c, a):
        v0 = deref(a[0]); r = a[1]
        if isinstance(v0, Str) or (isinstance(v0, Vec) and v0.ty in ('String', 'BString')):
            b = v0.b if isinstance(v0, Str) else v0.l
            lo, hi = 0, len(b)
            if 'RangeFrom' in c: lo = r.f[0]
            elif 'RangeToInclusive' in c: hi = r.f[0] + 1
            elif 'RangeTo' in c: hi = r.f[0]
            elif 'RangeFull' not in c: lo, hi = r.f[0], r.f[1]
            if not (isinstance(lo, int) and isinstance(hi, int)): raise EngineError('symbolic str slice bounds')
            if lo > hi or hi > len(b): raise Panic('str slice index out of range')
            if isinstance(v0, Str) or v0.ty == 'String': e.check_boundary(b, lo); e.check_boundary(b, hi)
            return Ref([Str(b[lo:hi])], 0)
        v = as_slice(v0)
        lo, hi = 0, len(v)
        if 'RangeFrom' in c: lo = r.f[0]
        elif 'RangeTo' in c: hi = r.f[0]
        elif 'RangeFull' not in c: lo, hi = r.f[0], r.f[1]
        if lo > hi or hi > len(v): raise Panic('slice index out of range')
        return SliceRef(v.l, v.lo + lo, v.lo + hi)
    @R(r'as Try>::branch$')
    def _(e, c, a):
        v = a[0]
        if v.v in ('Ok', 'Some'): return Enum('Continue', [v.f[0]], 'ControlFlow')
        return Enum('Break', [Enum(v.v, list(v.f), v.ty)], 'ControlFlow')
    @R(r'as FromResidual<.*>>::from_residual$')
    def _(e, c, a):
        if c.startswith('<std::option::Option') or c.startswith('<Option'): return NONE()
        return a[0]
    @R(r'as (std::future::)?IntoFuture>::into_future$|as IntoIterator>::into_iter$')
    def _(e, c, a):
        x = a[0]
        if c.endswith('into_future'): return x
        if isinstance(x, It): return x
        if isinstance(x, HashMapM):
            p = [x.items[i] for i in e.pick_order(len(x.items))]
            return It('list', l=[Agg([k, v], 'tup') for k, v in p], pos=0)
        return as_iter(e, x)
    @R(r'^std::future::get_context')
    def _(e, c, a): return Ref(['cx'], 0)
    @R(r'^Pin::<.*>::new_unchecked$|^Pin::<.*>::new$')
    def _(e, c, a): return Agg([a[0]], 'Pin')
    @R(r'as (futures::|std::future::)?Future>::poll$')
    def _(e, c, a): return Enum('Ready', [e.poll(a[0])], 'Poll')
    @R(r'as (Fn|FnMut|FnOnce)<.*>>::call(_mut|_once)?$')
    def _(e, c, a): return e.closure_call(a[0], list(a[1].f))
    @R(r'as (AsyncFn|AsyncFnMut|AsyncFnOnce)<.*>>::async_call(_mut|_once)?$')
    def _(e, c, a): return e.closure_call(a[0], list(a[1].f))
    @R(r'as (Into|From)<.*>>::(into|from)$')
    def _(e, c, a):
        v = a[0]
        if isinstance(v, Vec) and 'SmallVec' in c: return Vec(v.l, 'SmallVec')
        return v

    # ------------------------------------------------ Option / Result
    @R(r'Option::<.*>::unwrap$|Result::<.*>::unwrap$|Option::<.*>::expect$|Result::<.*>::expect$')
    def _(e, c, a):
        if a[0].v in ('None', 'Err'): raise Panic('unwrap on ' + a[0].v)
        return a[0].f[0]
    @R(r'Option::<.*>::is_some$')
    def _(e, c, a): return deref(a[0]).v == 'Some'
    @R(r'Option::<.*>::is_none$')
    def _(e, c, a): return deref(a[0]).v == 'None'
    @R(r'Option::<.*>::as_ref$')
    def _(e, c, a):
        o = deref(a[0]); return SOME(Ref(o.f, 0)) if o.v == 'Some' else NONE()
    @R(r'Option::<.*>::cloned$|Option::<.*>::copied$')
    def _(e, c, a): return SOME(clone_val(e, a[0].f[0])) if a[0].v == 'Some' else NONE()
    @R(r'Option::<.*>::map::<')
    def _(e, c, a): return SOME(e.closure_call(a[1], [a[0].f[0]])) if a[0].v == 'Some' else NONE()
    @R(r'Option::<.*>::unwrap_or$')
    def _(e, c, a): return a[0].f[0] if a[0].v == 'Some' else a[1]

    # ------------------------------------------------ Vec / SmallVec / slices
    @R(r'^(smallvec::)?SmallVec::<.*>::len$|^(std::vec::)?Vec::<.*>::len$|^core::slice::<impl \[.*\]>::len$')
    def _(e, c, a): v = deref(a[0]); return len(v.l) if isinstance(v, Vec) else len(v)
    @R(r'^(SmallVec|Vec)::<.*>::(new|with_capacity)$|as Default>::default$')
    def _(e, c, a):
        if c.endswith('default'):
            ty = c[1:].split(' as Default')[0]
            if ty.startswith(('Vec<', 'std::vec::Vec<', 'SmallVec<', 'smallvec::SmallVec<')): return Vec([], 'SmallVec' if 'SmallVec' in ty else 'Vec')
            if ty.startswith(('String', 'std::string::String')): return Vec([], 'String')
            if ty.startswith(('Option<', 'std::option::Option<')): return NONE()
            if ty in ('usize', 'u8', 'u32', 'u64', 'i32', 'i64', 'isize'): return 0
            if ty == 'bool': return False
            if ty.startswith(('HashSet<', 'std::collections::HashSet<')): return Vec([], 'HashSet')
            if ty.startswith(('BTreeMap<', 'std::collections::BTreeMap<')):
                from .models2 import BTreeMapM
                return BTreeMapM()
            if ty.startswith(('HashMap<', 'std::collections::HashMap<')): return HashMapM()
            if ty.startswith(('BTreeSet<', 'std::collections::BTreeSet<')): return Vec([], 'BTreeSet')
            raise EngineError('no Default model for ' + ty)
        return Vec([], 'SmallVec' if 'SmallVec' in c else 'Vec')
    @R(r'^(SmallVec|Vec)::<.*>::push$')
    def _(e, c, a): deref(a[0]).l.append(a[1]); return UNIT
    @R(r'^(SmallVec|Vec)::<.*>::pop$')
    def _(e, c, a): l = deref(a[0]).l; return SOME(l.pop()) if l else NONE()
    @R(r'^(SmallVec|Vec)::<.*>::swap_remove$')
    def _(e, c, a):
        l, i = deref(a[0]).l, a[1]
        if i >= len(l): raise Panic('swap_remove index')
        v = l[i]; l[i] = l[-1]; l.pop(); return v
    @R(r'^(SmallVec|Vec)::<.*>::extend::<|as Extend<.*>>::extend::<')
    def _(e, c, a):
        items = drain(e, as_iter(e, a[1]))
        if re.search(r' as Extend<&', c): items = [e.copy_val(deref(x)) if isinstance(x, Ref) else x for x in items]        # Extend<&T> for collections of Copy items
        deref(a[0]).l.extend(items); return UNIT
    @R(r'^Vec::<.*>::drain::<')
    def _(e, c, a): v = deref(a[0]); r = a[1]; del v.l[r.f[0]:r.f[1]]; return UNIT
    @R(r'^core::slice::<impl \[.*\]>::iter(_mut)?$')
    def _(e, c, a): s = as_slice(deref(a[0]) if isinstance(a[0], Ref) else a[0]); return It('slice', l=s.l, pos=s.lo, end=s.hi)
    @R(r'^core::slice::<impl \[.*\]>::swap$')
    def _(e, c, a):
        s, i, j = as_slice(a[0]), a[1], a[2]
        if i >= len(s) or j >= len(s): raise Panic('swap index')
        s.l[s.lo + i], s.l[s.lo + j] = s.l[s.lo + j], s.l[s.lo + i]; return UNIT
    @R(r'^core::slice::<impl \[.*\]>::rotate_left$')
    def _(e, c, a):
        s, k = as_slice(a[0]), a[1]
        if k > len(s): raise Panic('rotate_left')
        items = s.items(); s.l[s.lo:s.hi] = items[k:] + items[:k]; return UNIT
    @R(r'^core::slice::<impl \[.*\]>::get$')
    def _(e, c, a):
        s, i = as_slice(a[0]), a[1]
        return SOME(Ref(s.l, s.lo + i)) if i < len(s) else NONE()
    @R(r'^(smallvec::)?SmallVec::<.*>::from_const$|^(smallvec::)?SmallVec::<.*>::from_buf$|^(smallvec::)?SmallVec::<.*>::from_vec$')
    def _(e, c, a):
        v = a[0]; return Vec(list(v.f if isinstance(v, Agg) else v.l), 'SmallVec')
    @R(r'^Box::<.*>::new_uninit$')
    def _(e, c, a): return UBox()
    @R(r'box_assume_init_into_vec_unsafe')
    def _(e, c, a): return Vec(list(a[0].cell[0].f))
    @R(r'^Box::<.*>::new$|^Box::<.*>::pin$')
    def _(e, c, a): return Ref([a[0]], 0) if c.endswith('new') else Agg([Ref([a[0]], 0)], 'Pin')

    # ------------------------------------------------ iterators
    @R(r'as Iterator>::enumerate$')
    def _(e, c, a): return It('enumerate', a=as_iter(e, a[0]), n=0)
    @R(r'as Iterator>::skip$')
    def _(e, c, a): return It('skip', a=as_iter(e, a[0]), n=a[1])
    @R(r'as Iterator>::step_by$')
    def _(e, c, a): return It('step_by', a=as_iter(e, a[0]), step=a[1], first=True)
    @R(r'as Iterator>::map::<')
    def _(e, c, a): return It('map', a=as_iter(e, a[0]), f=a[1])
    @R(r'as Iterator>::rev$')
    def _(e, c, a): return It('rev', a=as_iter(e, a[0]))
    @R(r'as Iterator>::chain::<')
    def _(e, c, a): return It('chain', a=as_iter(e, a[0]), b=as_iter(e, a[1]))
    @R(r'as Iterator>::cycle$')
    def _(e, c, a): it = as_iter(e, a[0]); return It('cycle', l=drain(e, it), pos=0)
    @R(r'^(std|core)::iter::once::<')
    def _(e, c, a): return It('list', l=[a[0]], pos=0)
    @R(r'^itertools::chain::<|^itertools::free::chain::<')
    def _(e, c, a): return It('chain', a=as_iter(e, a[0]), b=as_iter(e, a[1]))
    @R(r'^std::iter::zip::<')
    def _(e, c, a): return It('zip', a=as_iter(e, a[0]), b=as_iter(e, a[1]))
    @R(r'as Iterator>::zip::<')
    def _(e, c, a): return It('zip', a=as_iter(e, a[0]), b=as_iter(e, a[1]))
    @R(r'as Iterator>::next$')
    def _(e, c, a):
        x = deref(a[0])
        if isinstance(x, Agg) and x.ty and x.ty not in ('arr', 'tup'):
            f = e._find_impl('next', 'Iterator', x.ty, 1)          # crate type that is its own iterator (reached through an opaque `impl IntoIterator`)
            if f is not None: return e.call_mir(f, [a[0] if isinstance(a[0], Ref) else Ref([x], 0)])
        return it_next(e, x)
    @R(r'as Itertools>::collect_vec$|as Iterator>::collect::<')
    def _(e, c, a):
        items = drain(e, as_iter(e, a[0]))
        if 'collect::<HashSet' in c or 'collect::<std::collections::HashSet' in c:
            out = []
            for x in items:
                if not any(e.branch(eq_val(e, x, y)) for y in out): out.append(x)
            return Vec(out, 'HashSet')
        return Vec(items, 'SmallVec' if 'collect::<SmallVec' in c or 'collect::<smallvec' in c else 'Vec')
    @R(r'as Iterator>::find::<')
    def _(e, c, a):
        it = deref(a[0])
        while True:
            n = it_next(e, it)
            if n.v == 'None': return n
            if e.branch(e.closure_call(a[1], [Ref([n.f[0]], 0)])): return n
    @R(r'as Iterator>::(all|any)::<')
    def _(e, c, a):
        it = deref(a[0]); is_all = '::all::<' in c
        while True:
            n = it_next(e, it)
            if n.v == 'None': return is_all
            r = e.branch(e.closure_call(a[1], [n.f[0]]))
            if is_all and not r: return False
            if not is_all and r: return True
    @R(r'as Itertools>::next_array::<(\d+)>')
    def _(e, c, a):
        n = int(re.search(r'next_array::<(\d+)>', c).group(1)); it = deref(a[0]); out = []
        for _ in range(n):
            x = it_next(e, it)
            if x.v == 'None': return NONE()
            out.append(x.f[0])
        return SOME(Agg(out, 'arr'))
    @R(r'as ExactSizeIterator>::len$')
    def _(e, c, a):
        import copy
        return len(drain(e, copy.deepcopy(deref(a[0])))) if False else _it_len(e, deref(a[0]))
    def _it_len(e, it):
        k = it.kind
        if k == 'slice': return it.end - it.pos
        if k == 'list': return len(it.l) - it.pos
        if k == 'step_by':
            n = _it_len(e, it.a)
            if it.first: return (n + it.step - 1) // it.step
            return n // it.step
        if k in ('enumerate', 'map', 'rev'): return _it_len(e, it.a)
        if k == 'skip': return max(0, _it_len(e, it.a) - it.n)
        raise EngineError('len of iterator ' + k)

    # ------------------------------------------------ HashMap (association list, nondeterministic order)
    @R(r'^(std::collections::)?HashMap::<.*>::new$')
    def _(e, c, a): return HashMapM()
    @R(r'^(std::collections::)?HashMap::<.*>::len$')
    def _(e, c, a): return len(deref(a[0]).items)
    @R(r'^(std::collections::)?HashMap::<.*>::entry$')
    def _(e, c, a):
        hm, key = deref(a[0]), a[1]
        for i, (k, v) in enumerate(hm.items):
            if e.branch(eq_val(e, k, key)): return Enum('Occupied', [hm, i], 'Entry')
        return Enum('Vacant', [hm, key], 'Entry')
    @R(r'(hash_map::)?Entry::<.*>::and_modify::<')
    def _(e, c, a):
        en = a[0]
        if en.v == 'Occupied':
            hm, i = en.f; slot = [hm.items[i][1]]
            e.closure_call(a[1], [Ref(slot, 0)]); hm.items[i] = (hm.items[i][0], slot[0])
        return en
    @R(r'(hash_map::)?Entry::<.*>::or_insert$')
    def _(e, c, a):
        en = a[0]
        if en.v == 'Vacant': hm, key = en.f; hm.items.append((key, a[1]))
        return UNIT
    @R(r'^(std::collections::)?HashMap::<.*>::retain::<')
    def _(e, c, a):
        hm = deref(a[0]); keep = []
        for k, v in hm.items:
            ks, vs = [k], [v]
            if e.branch(e.closure_call(a[1], [Ref(ks, 0), Ref(vs, 0)])): keep.append((k, vs[0]))
        hm.items = keep; return UNIT

    # ------------------------------------------------ Range
    def _ule(a, b):
        if isinstance(a, int) and isinstance(b, int): return a <= b
        return z3.ULE(a, b) if (z3.is_bv(a) or z3.is_bv(b)) else a <= b
    @R(r'^(std::ops::)?Range::<usize>::is_empty$')
    def _(e, c, a): r = deref(a[0]); return _ule(r.f[1], r.f[0])
    @R(r'^(std::mem|core::mem)::(take|replace)::<')
    def _(e, c, a):
        old = a[0].get()
        if 'take' in c:
            a[0].set(NONE() if isinstance(old, Enum) and old.ty == 'Option' else Vec([], getattr(old, 'ty', 'Vec')))
        else: a[0].set(a[1])
        return old
    @R(r'Option::<.*>::take$')
    def _(e, c, a):
        old = a[0].get(); a[0].set(NONE()); return old

    # ------------------------------------------------ HashSet (concrete membership in the prototype; order nondeterministic)
    @R(r'^(std::collections::)?HashSet::<.*>::(new|default)$')
    def _(e, c, a): return Vec([], 'HashSet')
    @R(r'^(std::collections::)?HashSet::<.*>::iter$')
    def _(e, c, a):
        l = deref(a[0]).l; p = e.pick_order(len(l))
        return It('list', l=[Ref(l, i) for i in p], pos=0)
    @R(r'^(std::collections::)?HashSet::<.*>::is_empty$')
    def _(e, c, a): return len(deref(a[0]).l) == 0
    @R(r'^(std::collections::)?HashSet::<.*>::len$')
    def _(e, c, a): return len(deref(a[0]).l)
    @R(r'^(std::collections::)?HashSet::<.*>::insert$')
    def _(e, c, a):
        s = deref(a[0])
        for x in s.l:
            if e.branch(eq_val(e, x, a[1])): return False
        s.l.append(a[1]); return True
    @R(r'^(std::collections::)?HashSet::<.*>::contains::<')
    def _(e, c, a):
        for x in deref(a[0]).l:
            if e.branch(eq_val(e, x, a[1])): return True
        return False
    @R(r'^(std::collections::)?HashSet::<.*>::intersection$')
    def _(e, c, a):
        s1, s2 = deref(a[0]), deref(a[1]); out = []
        for i, x in enumerate(s1.l):
            for y in s2.l:
                if e.branch(eq_val(e, x, y)): out.append(Ref(s1.l, i)); break
        return It('list', l=out, pos=0)
    @R(r'as Iterator>::cloned(::<.*>)?$|as Iterator>::copied(::<.*>)?$')
    def _(e, c, a): return It('map', a=as_iter(e, a[0]), f=(lambda x: (x.get() if isinstance(x, Ref) and isinstance(x.get(), (Ref, SliceRef)) else clone_val(e, x))))

    # ------------------------------------------------ str
    def sbytes(x):
        x = deref(x)
        if isinstance(x, Str): return x.b
        if isinstance(x, Vec) and x.ty in ('String', 'BString', 'Vec'): return x.l
        raise EngineError(f'not a string: {x!r}')
    def sref(b): return Ref([Str(b)], 0)
    def beq(e, x, y):
        if isinstance(x, int) and isinstance(y, int): return x == y
        return x == y
    @R(r'^core::str::<impl str>::strip_prefix::<&str>$')
    def _(e, c, a):
        s, p = sbytes(a[0]), sbytes(a[1])
        if len(p) > len(s): return NONE()
        if e.branch(conj([beq(e, x, y) for x, y in zip(s, p)])): return SOME(sref(s[len(p):]))
        return NONE()
    @R(r'^core::str::<impl str>::split_once::<char>$')
    def _(e, c, a):
        s, ch = sbytes(a[0]), a[1]
        for i, x in enumerate(s):
            if e.branch(beq(e, x, ch)): return SOME(Agg([sref(s[:i]), sref(s[i + 1:])], 'tup'))
        return NONE()
    @R(r'^core::str::<impl str>::contains::<char>$')
    def _(e, c, a):
        for x in sbytes(a[0]):
            if e.branch(beq(e, x, a[1])): return True
        return False
    @R(r'^core::str::<impl str>::is_empty$|^(std::string::)?String::is_empty$')
    def _(e, c, a): return len(sbytes(a[0])) == 0
    @R(r'^core::str::<impl str>::len$|^(std::string::)?String::len$')
    def _(e, c, a): return len(sbytes(a[0]))
    @R(r'^(std::string::)?String::as_str$|<(std::string::)?String as Deref>::deref$')
    def _(e, c, a): return sref(sbytes(a[0]))
    @R(r'^core::bool::<impl bool>::then::<')
    def _(e, c, a): return SOME(e.closure_call(a[1], [])) if e.branch(a[0]) else NONE()
    @R(r'^must_use::<')
    def _(e, c, a): return a[0]

    # ------------------------------------------------ fmt (pinned-nightly template byte code)
    @R(r'^core::fmt::rt::Argument::new_display::<')
    def _(e, c, a): return ('disp', a[0])
    @R(r'^(std|core)::fmt::Arguments::new::<')
    def _(e, c, a): return ('fmtargs', sbytes(a[0]), deref(a[1]).f)
    def format_args(fa):
        """decode the pinned nightly's fmt template byte-code: literal runs and `{}` of str/String/BString/integers"""
        _, tpl, args = fa; out = []; i = 0; nxt = 0
        if not all(isinstance(x, int) for x in tpl): raise EngineError(f'fmt template not concrete: {tpl!r}')
        while True:
            t = tpl[i]; i += 1
            if t == 0: break
            if t < 0x80: out.extend(tpl[i:i + t]); i += t
            elif t == 0xc0:
                kind, v = args[nxt]; nxt += 1; v = deref(v)
                while isinstance(v, Agg) and len(v.f) == 1 and v.ty not in ('arr', 'tup'): v = deref(v.f[0])
                if isinstance(v, (Str, Vec)): out.extend(sbytes(v))
                elif isinstance(v, SliceRef): out.extend(v.items())
                elif isinstance(v, int) and not isinstance(v, bool): out.extend(str(v).encode())
                else: raise EngineError(f'Display of {v!r}')
            else: raise EngineError(f'fmt template op {t:#x}')
        return out
    E.format_args = format_args
    @R(r'^(std|alloc)::fmt::format$')
    def _(e, c, a): return Vec(format_args(a[0]), 'String')

    # ------------------------------------------------ panics / fmt
    @R(r'^Arguments::|^core::fmt::rt::|^std::fmt::Arguments')
    def _(e, c, a): return 'fmt'
    @R(r'^(std::rt::|core::panicking::)?panic_fmt$|^core::panicking::|^std::rt::begin_panic|^core::option::(expect|unwrap)_failed|^core::result::unwrap_failed')
    def _(e, c, a): raise Panic(c)

class HashMapM:
    def __init__(self): self.items = []

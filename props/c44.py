"""C44  Text truncation and wrapping respect the width  (cli/src/text_util.rs; MIR of jj-cli)

Real code from MIR: elide_start, elide_end, truncate_{start,end}_pos(_with_indices), skip_{start,end}_pos(_with_indices),
trim_start_zero_width_chars and their closures.
Text and ellipsis are sequences of *abstract characters*: each has a concrete UTF-8 length (enumerated over the bound) and a
display width answered by a stub for UnicodeWidthChar::width: an arbitrary None | Some(0|1|2) per character, decided by the
solver (wide, zero-width/combining and control characters in every position).  max_width is a free 64-bit value.
"""
import itertools, re, z3
from mirsym.harness import *
from mirsym.engine import NONE, SOME
from mirsym.models3 import CharM

ID = 'C44'
CRATES = ['jj-cli']
NATIVE = 'c44'
BOUNDS = {
    'quick': 'elide_start/elide_end: text of 0..3 and ellipsis of 0..1 abstract characters, UTF-8 lengths in {1,3}, every width assignment in {None,0,1,2} per character, every 64-bit max_width',
    'thorough': 'text of 0..4 and ellipsis of 0..2 characters, UTF-8 lengths in {1,2,3,4}',
}
ASSUMPTIONS = [
    'UnicodeWidthChar::width(c) is a function of the character with values None or Some(0..=2) (stub; unicode-width tables are outside)',
    'only the char-level functions (elide_start/elide_end and helpers) are covered; write_truncated_*/write_padded_* (FormatRecorder replay, UnicodeWidthStr::width of whole strings) and wrap_bytes (textwrap) are not encoded',
    'str slicing panics when an index is not a character boundary (checked on the abstract UTF-8 layout)',
]
BUDGET = {'quick': 900, 'thorough': 2400}
F = 'cli/src/text_util.rs'

def jobs(tier):
    nt, ne, lens = (3, 1, (1, 3)) if tier == 'quick' else (4, 2, (1, 2, 3, 4))
    out = []
    for fn in ('elide_start', 'elide_end'):
        for a in range(0, nt + 1):
            for b in range(0, ne + 1):
                for ls in itertools.product(lens, repeat=a + b):
                    out.append(dict(name=f'{fn}-t{a}-e{b}-' + ''.join(map(str, ls)), fn=fn, tl=list(ls[:a]), el=list(ls[a:]), rung=0 if a + b <= 3 else a + b, weight=3 ** (a + b)))
    return out

def run_job(ix, job, tier):
    fn = ix.find(job['fn'], file=F)
    tl, el = job['tl'], job['el']; ids = list(range(len(tl) + len(el)))
    lens = tl + el
    isnone = [z3.Bool(f'none{i}') for i in ids]; w = [bv(f'w{i}') for i in ids]; maxw = bv('max_width')
    w0 = [z3.If(isnone[i], z3.BitVecVal(0, 64), w[i]) for i in ids]
    pre = zand([z3.ULE(x, 2) for x in w])
    def toks(first, ls): return [('c', first + j, k, n) for j, n in enumerate(ls) for k in range(n)]
    text = toks(0, tl); ell = toks(len(tl), el)
    def width_stub(e, c, args):
        ch = args[0]
        if not isinstance(ch, CharM): raise EngineError(f'width of {ch!r}')
        return NONE() if e.branch(isnone[ch.id]) else SOME(w[ch.id])
    over = [(re.compile(r'as UnicodeWidthChar>::width$'), width_stub)]
    def run(e):
        r = e.call_mir(fn, [Ref([Str(list(text))], 0), Ref([Str(list(ell))], 0), maxw])
        cow, width = r.f
        s = deref(cow.f[0]); b = list(s.b if isinstance(s, Str) else s.l)
        return cow.v, b, width
    def chars_of(b):
        out = []; i = 0
        while i < len(b):
            t = b[i]
            if t[2] != 0 or tuple(b[i:i + t[3]]) != tuple(('c', t[1], k, t[3]) for k in range(t[3])): return None
            out.append(t[1]); i += t[3]
        return out
    def W(cs): return sum([w0[i] for i in cs], z3.BitVecVal(0, 64))
    def obligations(k, out, pc, e):
        kind, b, width = out
        cs = chars_of(b)
        yield 'no character is split', cs is not None
        if cs is None: return
        tw = W(range(len(tl)))
        yield 'returned width is the display width of the returned string', W(cs) == width
        yield 'returned string is never wider than max_width', z3.ULE(W(cs), maxw)
        yield 'text that already fits is returned unchanged', z3.Implies(z3.ULE(tw, maxw), zbool(kind == 'Borrowed' and b == text))
        tids = list(range(len(tl))); eids = list(range(len(tl), len(tl) + len(el)))
        if job['fn'] == 'elide_start':
            shapes = [tids] + [eids[i:] for i in range(len(eids) + 1)] + [eids + tids[i:] for i in range(len(tids) + 1)]
        else:
            shapes = [tids] + [eids[:i] for i in range(len(eids) + 1)] + [tids[:i] + eids for i in range(len(tids) + 1)]
        yield 'result is the text, a piece of the ellipsis, or the ellipsis joined with the kept end of the text', cs in shapes
    def witness(m, k, out):
        # concretise: width None/0/1/2 per character -> a real character of that UTF-8 length and width (chosen natively)
        spec = [dict(len=lens[i], width=(None if mval(m, isnone[i]) else mval(m, w[i]))) for i in ids]
        inp = dict(fn=job['fn'], text=spec[:len(tl)], ellipsis=spec[len(tl):], max_width=mval(m, maxw))
        if k != 'ok': return dict(input=inp, expect=None)
        kind, b, width = out; cs = chars_of(b)
        return dict(input=inp, expect=dict(chars=cs, width=mval(m, width)))
    return explore_job(ix, job['name'], run, obligations, overrides=over, pre=pre, witness=witness, deadline=job.get('deadline'))

def compare_native(case, native):
    if native.get('skipped'): return True, ''
    if case.get('expect') is None: return ('panic' in native), 'interpreter path panicked but native run did not'
    if 'panic' in native: return False, f'native panic {native["panic"]}'
    return native.get('out') == case['expect'], f'native {native.get("out")} != symbolic {case["expect"]}'

#!/bin/bash
# usage: confirm_seed.sh <seed-dir under /verif/seeded> <scratch worktree>
# Confirms: patch applies+compiles, the existing suite has no new failures with the patch, the demo fails with and passes without it.
seed=/verif/seeded/$1; wt=$2; log=$seed/confirm.log
export CARGO_NET_OFFLINE=true
cd $wt || exit 2
git checkout -q -- . ; git clean -fdq -e SEED -e target
demo_cmd=$(python3 -c "import json; print(json.load(open('$seed/meta.json'))['demo_cmd'])")
{
echo "== $(date) confirm $1 in $wt"
echo "== demo on clean tree (must pass): $demo_cmd"
git apply $seed/demo.diff && (eval "$demo_cmd" > /tmp/confirm_$1_demo_clean.log 2>&1; echo "demo_clean_exit=$?")
echo "== demo with patch (must fail)"
git apply $seed/patch.diff && (eval "$demo_cmd" > /tmp/confirm_$1_demo_patch.log 2>&1; echo "demo_patched_exit=$?")
git checkout -q -- . ; git clean -fdq -e SEED -e target
echo "== existing suite with patch only"
git apply $seed/patch.diff
nice -n 5 cargo nextest run --workspace --offline --no-fail-fast --test-threads 8 --failure-output never --success-output never --status-level fail --final-status-level fail > /tmp/confirm_$1_suite.log 2>&1
echo "suite_exit=$?"
grep -E "^\s+(FAIL|SIGABRT|SIGSEGV|TIMEOUT)" /tmp/confirm_$1_suite.log | sed -E 's/^\s+\S+ \[[^]]*\] //; s/^\( *[0-9]+\/[0-9]+\) //' | sort -u > /tmp/confirm_$1_fail.txt
grep -E "Summary" /tmp/confirm_$1_suite.log
if [ -f /tmp/baseline_fail.txt ]; then echo "new failures vs clean baseline:"; comm -13 /tmp/baseline_fail.txt /tmp/confirm_$1_fail.txt | head -20; echo "(end of new failures)"; fi
git checkout -q -- . ; git clean -fdq -e SEED -e target
} >> $log 2>&1
